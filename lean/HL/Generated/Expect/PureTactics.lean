/-
  Tactics shared by the expectations about translated Go predicates (Expect/Pure*.lean).
-/
namespace HL.Generated.Expect

/-- a predicate on bytes that holds on all 256 of them holds on every byte -/
theorem forall_uint8 (p : UInt8 → Bool) (h : (List.range 256).all (fun n => p (UInt8.ofNat n)) = true) :
    ∀ b : UInt8, p b = true := by
  intro b
  have hb := b.toNat_lt
  have := List.all_eq_true.mp h b.toNat (List.mem_range.mpr hb)
  simpa using this

/-- equality of two Bool expressions over comparisons of natural numbers -/
macro "bool_arith" : tactic =>
  `(tactic| (apply Bool.eq_iff_iff.mpr
             try simp only [Bool.or_eq_true, Bool.and_eq_true, Bool.not_eq_true', Bool.not_eq_false',
               Bool.or_eq_false_iff, Bool.and_eq_false_imp, beq_iff_eq, bne_iff_ne, beq_eq_false_iff_ne,
               bne_eq_false_iff_eq, decide_eq_true_eq, decide_eq_false_iff_not, ge_iff_le, gt_iff_lt,
               List.contains_cons, List.contains_nil, Bool.false_eq_true, Bool.true_eq_false, or_false, false_or,
               and_false, false_and, and_true, true_and, or_true, true_or, List.elem_eq_mem, List.mem_cons,
               List.not_mem_nil, Bool.or_false, Bool.false_or, Bool.and_true, Bool.true_and, Bool.and_false,
               Bool.false_and, Bool.or_true, Bool.true_or, ne_eq, Bool.not_true, Bool.not_false]
             try omega))

end HL.Generated.Expect
