/-
  Hand-written expectations about the facts regenerated from /repo (HL/Generated/Facts.lean).
  Each theorem states one thing the model or a proof relies on.  If the Go source changes
  such a fact, `lake build` fails HERE, naming the fact: a proof break attributable to it.
  A Props file imports exactly the expectation modules its proofs and its model rely on.
-/
import HL.Generated.Facts
import HL.Model.Ast
namespace HL.Generated.Expect
open HL.Generated.Facts

/-- The six standard top-level categories of C18. -/
theorem predefined_accounts :
    predefinedAccountTypes = ["assets", "equity", "expenses", "income", "liabilities", "revenues"] := by decide

/-- Codes switched by the three diagnostics settings (C18 `settings_orthogonal`, C02). -/
theorem switched_codes :
    switchedDiagnosticCodes = ["UNDECLARED_ACCOUNT", "UNDECLARED_COMMODITY", "UNBALANCED", "MULTIPLE_INFERRED"] := by decide

end HL.Generated.Expect
