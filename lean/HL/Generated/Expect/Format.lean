/-
  Hand-written expectations about the facts regenerated from /repo (HL/Generated/Facts.lean).
  Each theorem states one thing the model or a proof relies on.  If the Go source changes
  such a fact, `lake build` fails HERE, naming the fact: a proof break attributable to it.
  A Props file imports exactly the expectation modules its proofs and its model rely on.
-/
import HL.Generated.Facts
import HL.Model.Ast
namespace HL.Generated.Expect
open HL.Generated.Facts

/-- C05 `alignment` says "at least two spaces after the longest account". -/
theorem min_spaces_ge_two : 2 ≤ minSpaces := by decide

theorem default_indent_pos : 0 < defaultIndentSize := by decide

end HL.Generated.Expect
