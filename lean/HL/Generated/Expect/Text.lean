/-
  Hand-written expectations about the facts regenerated from /repo (HL/Generated/Facts.lean).
  Each theorem states one thing the model or a proof relies on.  If the Go source changes
  such a fact, `lake build` fails HERE, naming the fact: a proof break attributable to it.
  A Props file imports exactly the expectation modules its proofs and its model rely on.
-/
import HL.Generated.Facts
import HL.Model.Ast
namespace HL.Generated.Expect
open HL.Generated.Facts

/-- `isFullChange` used to be tied to the model by comparing its source text with a string, which
    any harmless rewrite broke; the function is now TRANSLATED on every run (HL/Generated/Pure.lean)
    and proved equal to `HL.Text.isFullChange` for every range: `isFullChange_eq` in
    HL/Generated/Expect/PureText.lean.  The fact `isFullChangeBody` is still recorded (evidence). -/
theorem isFullChange_recorded : isFullChangeBody.length > 0 := by decide

end HL.Generated.Expect
