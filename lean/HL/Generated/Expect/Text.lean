/-
  Hand-written expectations about the facts regenerated from /repo (HL/Generated/Facts.lean).
  Each theorem states one thing the model or a proof relies on.  If the Go source changes
  such a fact, `lake build` fails HERE, naming the fact: a proof break attributable to it.
  A Props file imports exactly the expectation modules its proofs and its model rely on.
-/
import HL.Generated.Facts
import HL.Model.Ast
namespace HL.Generated.Expect
open HL.Generated.Facts

/-- `isFullChange` is "all four range fields are zero" (HL.Text.isFullChange; C01). -/
theorem isFullChange_shape :
    isFullChangeBody = "{ return r.Start.Line == 0 && r.Start.Character == 0 && r.End.Line == 0 && r.End.Character == 0 }" := by decide

end HL.Generated.Expect
