/-
  Hand-written expectations about the regenerated score constants of completion.go
  (HL/Generated/Facts.lean).  The theorems of C16 need no more than this: a matched character
  adds a positive amount (so a prefix match scores above zero) and the empty pattern scores above
  zero (so every candidate is kept for an empty query).  A retuning of the constants that keeps
  these two facts changes model and implementation together and breaks nothing.
-/
import HL.Generated.Facts
namespace HL.Generated.Expect
open HL.Generated.Facts

theorem fuzzy_base_pos : 0 < fuzzyScoreBaseMatch := by decide
theorem fuzzy_empty_pos : 0 < fuzzyScoreEmptyPattern := by decide

end HL.Generated.Expect
