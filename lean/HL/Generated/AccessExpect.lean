/-
  HAND-WRITTEN expectations about the regenerated access table (HL/Generated/Access.lean).

  For every shared location this file states the protection the C14 proofs rely on.  The match
  below is exhaustive over the generated `Loc` type, so:
    * code that starts touching a shared field that was not touched before adds a constructor
      and this file stops compiling at `protection` — a proof break that names the field;
    * an access that is not covered by the stated protection (a lock region that disappeared,
      a write from a new thread) makes `HL.Props.C14.table_covered` fail, and the build log
      names the row (function and line).
-/
import HL.Generated.Access
namespace HL.Generated.AccessExpect
open HL.Lockset HL.Generated.Access

inductive Protection
  /-- every access holds the lock; writes hold it exclusively -/
  | guardedBy (l : Lock)
  /-- only touched through methods of sync.Map / other sync types -/
  | atomicCell
  /-- written during initialisation (or while the object is still private to its creator),
      read-only afterwards -/
  | immutableAfterInit
  /-- only touched by the initialisation and the serial handler thread -/
  | mainOnly
  /-- written only by the handler thread, holding the lock exclusively; background threads read
      it holding the lock; the handler thread itself may read it without the lock -/
  | mainOwned (l : Lock)
  deriving Repr

def protection : Loc → Protection
  -- cli.Client: filled in by NewClient before the pointer is published, never written again
  | .Client_available => .immutableAfterInit
  | .Client_path => .immutableAfterInit
  | .Client_timeout => .immutableAfterInit
  -- include.Loader
  | .Loader_cache => .guardedBy .Loader_mu
  | .Loader_limits => .guardedBy .Loader_mu
  -- include.ResolvedJournal: the workspace's instance is mutated in place by UpdateFile
  -- (handler thread, under Workspace.mu) and read by publishDiagnostics under Workspace.mu;
  -- the per-document instances are built privately by the loader and published through
  -- Server.resolved (sync.Map) without being written again
  | .ResolvedJournal_FileOrder => .mainOwned .Workspace_mu
  | .ResolvedJournal_Files => .mainOwned .Workspace_mu
  | .ResolvedJournal_Primary => .mainOwned .Workspace_mu
  -- ... and the instances that cannot be the workspace's (the translator follows the one
  -- instance stored in Workspace.resolved through returns, locals and arguments): written
  -- only while private to the load that builds them
  | .ResolvedJournalDoc_FileOrder => .immutableAfterInit
  | .ResolvedJournalDoc_Files => .immutableAfterInit
  | .ResolvedJournalDoc_Primary => .immutableAfterInit
  -- server.Server
  | .Server_analyzer => .immutableAfterInit
  | .Server_cliClient => .guardedBy .Server_settingsMu
  | .Server_client => .immutableAfterInit
  -- versioned diagnostics: the per-document sequence numbers; docVerMu is also held around
  -- resolved.Delete/Store and payeeTemplatesCache.Delete (those two stay atomic cells)
  | .Server_docSeq => .guardedBy .Server_docVerMu
  | .Server_docVersions => .guardedBy .Server_docVerMu
  | .Server_documents => .atomicCell
  | .Server_loader => .immutableAfterInit
  | .Server_payeeTemplatesCache => .atomicCell
  -- numbering of the configuration refreshes: taken on the handler thread (nextRefresh),
  -- compared by the refresh goroutines (isNewestRefresh), both under settingsMu
  | .Server_refreshSeq => .guardedBy .Server_settingsMu
  | .Server_resolved => .atomicCell
  | .Server_rootURI => .immutableAfterInit
  | .Server_settings => .guardedBy .Server_settingsMu
  | .Server_supportsConfiguration => .immutableAfterInit
  | .Server_workspace => .immutableAfterInit
  -- workspace.Workspace
  | .Workspace_cachedAccounts => .guardedBy .Workspace_mu
  | .Workspace_cachedCommodities => .guardedBy .Workspace_mu
  | .Workspace_cachedFormats => .guardedBy .Workspace_mu
  | .Workspace_includeGraph => .guardedBy .Workspace_mu
  | .Workspace_index => .guardedBy .Workspace_mu
  | .Workspace_loadErrors => .guardedBy .Workspace_mu
  | .Workspace_loader => .guardedBy .Workspace_mu
  | .Workspace_parseErrors => .guardedBy .Workspace_mu
  | .Workspace_resolved => .guardedBy .Workspace_mu
  | .Workspace_reverseGraph => .guardedBy .Workspace_mu
  | .Workspace_rootJournalPath => .guardedBy .Workspace_mu
  | .Workspace_rootURI => .guardedBy .Workspace_mu
  -- workspace.WorkspaceIndex (only reachable through Workspace.index)
  | .WorkspaceIndex_accountCounts => .guardedBy .Workspace_mu
  | .WorkspaceIndex_accounts => .guardedBy .Workspace_mu
  | .WorkspaceIndex_commodities => .guardedBy .Workspace_mu
  | .WorkspaceIndex_commodityCounts => .guardedBy .Workspace_mu
  | .WorkspaceIndex_dateCounts => .guardedBy .Workspace_mu
  | .WorkspaceIndex_dates => .guardedBy .Workspace_mu
  | .WorkspaceIndex_fileIndexes => .guardedBy .Workspace_mu
  | .WorkspaceIndex_payeeCounts => .guardedBy .Workspace_mu
  | .WorkspaceIndex_payeeTemplates => .guardedBy .Workspace_mu
  | .WorkspaceIndex_payees => .guardedBy .Workspace_mu
  | .WorkspaceIndex_tagCounts => .guardedBy .Workspace_mu
  | .WorkspaceIndex_tagValueCounts => .guardedBy .Workspace_mu
  | .WorkspaceIndex_tagValues => .guardedBy .Workspace_mu
  | .WorkspaceIndex_tags => .guardedBy .Workspace_mu
  | .WorkspaceIndex_transactionsByKey => .guardedBy .Workspace_mu
  -- semantic token cache (package-level singleton), entries are never modified once stored
  | .cachedSemanticTokens_data => .mainOnly
  | .cachedSemanticTokens_resultID => .mainOnly
  | .semanticTokensCache_cache => .guardedBy .semanticTokensCache_mu
  | .semanticTokensCache_resultID => .guardedBy .semanticTokensCache_mu
  -- package-level variables: initialised at program start, read-only
  | .include_ErrPathTraversal => .immutableAfterInit
  | .server_dateRegex => .immutableAfterInit
  | .server_defaultDateFormat => .immutableAfterInit
  -- the feature gate's table (feature_gate.go): a map literal, only ever indexed
  | .server_requestFeature => .immutableAfterInit
  | .server_tokenCache => .immutableAfterInit
  | .workspace_excludedDirs => .immutableAfterInit

/-! ### The memory behind reference-typed shared data (escape table)

  `storeProtection` states, per store, the protection the C14 alias proofs rely on.  It is
  keyed by the store's NAME and has a default, so that code which starts (or stops) touching
  some slice, map or syntax-tree field changes nothing here as long as it only READS shared
  memory: the default is the strictest protection, "immutable after publication" — written
  only while the object is still private to the function that builds it (`fresh`), read-only
  for everybody afterwards, escaped aliases included.  That is the protection of the cached
  syntax trees (`Journal_*`, `Transaction_*`, `Posting_*`, … shared between the loader cache,
  the per-document trees and the workspace), of the cached parse errors (`cachedFile_errors`:
  every load takes its own copy), of the per-document include trees (`ResolvedJournalDoc_*`),
  of the workspace's declared-name and format caches (built privately, published, replaced but
  never modified) and of the semantic-token arrays.  A new un-copied escape that is appended to
  or written through is therefore an uncovered row: `HL.Props.C14.escapes_covered` fails and
  the build log names the store, the function and the line. -/

def storeProtectionByName : String → Protection
  -- include.Loader: the cache map itself is only touched inside Loader.mu regions
  | "Loader_cache" => .guardedBy .Loader_mu
  -- server.Server: the version map
  | "Server_docVersions" => .guardedBy .Server_docVerMu
  -- the semantic-token cache map
  | "semanticTokensCache_cache" => .guardedBy .semanticTokensCache_mu
  -- workspace.Workspace: include graphs and their edge lists are modified in place
  -- (removeString / addString / append) inside Workspace.mu regions and never leave them
  | "Workspace_includeGraph" => .guardedBy .Workspace_mu
  | "Workspace_includeGraph_elem" => .guardedBy .Workspace_mu
  | "Workspace_reverseGraph" => .guardedBy .Workspace_mu
  | "Workspace_reverseGraph_elem" => .guardedBy .Workspace_mu
  | "Workspace_parseErrors" => .guardedBy .Workspace_mu
  -- workspace.WorkspaceIndex: counters and per-file indexes, modified in place under Workspace.mu
  | "WorkspaceIndex_accountCounts" => .guardedBy .Workspace_mu
  | "WorkspaceIndex_commodityCounts" => .guardedBy .Workspace_mu
  | "WorkspaceIndex_dateCounts" => .guardedBy .Workspace_mu
  | "WorkspaceIndex_fileIndexes" => .guardedBy .Workspace_mu
  | "WorkspaceIndex_payeeCounts" => .guardedBy .Workspace_mu
  | "WorkspaceIndex_payeeTemplates" => .guardedBy .Workspace_mu
  | "WorkspaceIndex_tagCounts" => .guardedBy .Workspace_mu
  | "WorkspaceIndex_tagValueCounts" => .guardedBy .Workspace_mu
  | "WorkspaceIndex_tagValueCounts_elem" => .guardedBy .Workspace_mu
  | "WorkspaceIndex_transactionsByKey" => .guardedBy .Workspace_mu
  | "WorkspaceIndex_transactionsByKey_elem" => .guardedBy .Workspace_mu
  -- the workspace's own include tree: its file map and file order are modified in place by
  -- UpdateFile (handler thread, Workspace.mu held exclusively); the handler thread reads them
  -- through the pointer GetResolved hands out (an escaped alias, same thread); background
  -- threads only inside Workspace.mu regions
  | "ResolvedJournal_Files" => .mainOwned .Workspace_mu
  | "ResolvedJournal_FileOrder" => .mainOwned .Workspace_mu
  -- everything else: immutable after publication
  | _ => .immutableAfterInit

def storeProtection (s : Store) : Protection := storeProtectionByName s.name

/-- `covered`, for a protection given directly. -/
def coveredBy {ι : Type} (p : Protection) (r : Row ι Lock) : Bool :=
  r.fresh || r.role == .init ||
  match p with
  | .guardedBy l => r.locks.any (fun x => x.1 == l && (r.kind == .read || x.2 == .excl))
  | .atomicCell => r.atomic
  | .immutableAfterInit => r.kind == .read
  | .mainOnly => r.role == .main
  | .mainOwned l =>
    if r.role == .main then r.kind == .read || r.locks.any (fun x => x.1 == l && x.2 == .excl)
    else r.kind == .read && r.locks.any (fun x => x.1 == l)

/-- Is the escape row an instance of the protection stated for its store? -/
def escapeCovered (e : Escape Store Lock) : Bool := coveredBy (storeProtection e.store) e.toRow

def uncoveredEscapes : List (Escape Store Lock) := escapes.filter fun e => !escapeCovered e

/-- Functions of other modules that may be handed a reference into shared memory: they only
    read what they are given. -/
def readOnlyExternals : List String :=
  ["strings.Join", "fmt.Sprintf", "fmt.Sprint", "fmt.Errorf", "encoding/json.Marshal", "slices.Contains",
   "slices.Index", "slices.Equal", "slices.BinarySearch", "sort.SearchStrings", "maps.Keys", "maps.Values"]

def externalsOK : Bool := externalUses.all fun f => readOnlyExternals.contains f

def holds (r : Row Loc Lock) (l : Lock) (needExcl : Bool) : Bool :=
  r.locks.any fun x => x.1 == l && (!needExcl || x.2 == .excl)

/-- Is the row an instance of the protection stated for its location?  Accesses by the
    initialisation thread and accesses to an object that is still private to its creator
    (`fresh`) are covered by every protection. -/
def covered (r : Row Loc Lock) : Bool :=
  r.fresh || r.role == .init ||
  match protection r.loc with
  | .guardedBy l => holds r l (r.kind == .write)
  | .atomicCell => r.atomic
  | .immutableAfterInit => r.kind == .read
  | .mainOnly => r.role == .main
  | .mainOwned l =>
    if r.role == .main then r.kind == .read || holds r l true
    else r.kind == .read && holds r l false

def uncovered : List (Row Loc Lock) := accessTable.filter fun r => !covered r

/-- The lock order the deadlock proof relies on: Workspace.mu may be held while Loader.mu is
    taken (Workspace.Initialize → Loader.Load), publishMu while docVerMu is taken
    (publishIfCurrent → isCurrentDocVersion), refreshMu while settingsMu or Loader.mu is taken
    (applyConfiguration → isNewestRefresh / getSettings / setSettings → SetLimits, reinitCLI),
    never the other way round; settingsMu is an innermost lock (nothing is taken while it is
    held), the token-cache mutex is taken with nothing else held. -/
def lockRank : Lock → Nat
  | .Server_refreshMu => 0
  | .Server_settingsMu => 3
  | .semanticTokensCache_mu => 0
  | .Workspace_mu => 1
  | .Loader_mu => 2
  | .Server_publishMu => 1
  | .Server_docVerMu => 2

/-- structs that own a mutex: the per-type lock identity of the table is exact only while
    these are constructed during initialisation -/
def lockOwners : List String := ["Server", "Workspace", "Loader", "semanticTokensCache"]

def constructedOK : Bool :=
  constructed.all fun c => !(lockOwners.contains c.1) || c.2.1 == .init

/-- no goroutine is started by the initialisation code (NewServer / SetClient / Initialize) -/
def noSpawnInInit : Bool := spawns.all fun s => s.1 != .init

end HL.Generated.AccessExpect
