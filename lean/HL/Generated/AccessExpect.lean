/-
  Expectations about the regenerated access table (HL/Generated/Access.lean), stated so that
  they survive renamings and regroupings of fields, mutexes and functions.

  For every shared location the C14 proofs rely on ONE protection scheme that covers all its
  accesses: guarded by one lock (writes exclusively) / atomic cell / immutable after
  initialisation / handler thread only / owned by the handler thread under a lock.  Which scheme
  a location has is not written down by name (an exhaustive match over the generated `Loc`
  type broke whenever a field was renamed or moved into a nested struct, although nothing about
  the locking had changed): it is INFERRED from the table — the first scheme of the fixed
  candidate list that covers every row of the location.  What the proofs need is that such a
  scheme EXISTS for every location (`HL.Props.C14.table_covered`): a lock region that
  disappeared, a write from a new thread, or a field that is sometimes locked and sometimes not,
  leaves the location without a covering scheme and the build log names the rows.  The schemes
  found for the current source are listed by `#eval HL.Generated.AccessExpect.protectionReport`
  (recorded in the evidence of C14), which is where a reader sees "Server.cliClient is guarded
  by settingsMu".
-/
import HL.Generated.Access
namespace HL.Generated.AccessExpect
open HL.Lockset HL.Generated.Access

inductive Protection
  /-- every access holds the lock; writes hold it exclusively -/
  | guardedBy (l : Lock)
  /-- only touched through methods of sync.Map / other sync types -/
  | atomicCell
  /-- written during initialisation (or while the object is still private to its creator),
      read-only afterwards -/
  | immutableAfterInit
  /-- only touched by the initialisation and the serial handler thread -/
  | mainOnly
  /-- written only by the handler thread, holding the lock exclusively; background threads read
      it holding the lock; the handler thread itself may read it without the lock -/
  | mainOwned (l : Lock)
  deriving Repr

/-- `covered`, for a protection given directly (accesses by the initialisation thread and
    accesses to an object that is still private to its creator are covered by every scheme). -/
def coveredBy {ι : Type} (p : Protection) (r : Row ι Lock) : Bool :=
  r.fresh || r.role == .init ||
  match p with
  | .guardedBy l => r.locks.any (fun x => x.1 == l && (r.kind == .read || x.2 == .excl))
  | .atomicCell => r.atomic
  | .immutableAfterInit => r.kind == .read
  | .mainOnly => r.role == .main
  | .mainOwned l =>
    if r.role == .main then r.kind == .read || r.locks.any (fun x => x.1 == l && x.2 == .excl)
    else r.kind == .read && r.locks.any (fun x => x.1 == l)

/-- the schemes tried, strictest first -/
def candidates : List Protection :=
  [.immutableAfterInit, .atomicCell] ++ Lock.all.map .guardedBy ++ [.mainOnly] ++ Lock.all.map .mainOwned

/-- the first scheme that covers all the given rows; `immutableAfterInit` (which then fails on
    some row) when there is none -/
def inferFrom {ι : Type} (rows : List (Row ι Lock)) : Protection :=
  (candidates.find? fun p => rows.all (coveredBy p)).getD .immutableAfterInit

/-- the protection scheme of a location: inferred from its rows in the regenerated table -/
def protection (l : Loc) : Protection := inferFrom (accessTable.filter fun r => r.loc == l)

/-! ### The memory behind reference-typed shared data (escape table)

  `storeProtection` states, per store, the protection the C14 alias proofs rely on.  It is
  keyed by the store's NAME and has a default, so that code which starts (or stops) touching
  some slice, map or syntax-tree field changes nothing here as long as it only READS shared
  memory: the default is the strictest protection, "immutable after publication" — written
  only while the object is still private to the function that builds it (`fresh`), read-only
  for everybody afterwards, escaped aliases included.  That is the protection of the cached
  syntax trees (`Journal_*`, `Transaction_*`, `Posting_*`, … shared between the loader cache,
  the per-document trees and the workspace), of the cached parse errors (`cachedFile_errors`:
  every load takes its own copy), of the per-document include trees (`ResolvedJournalDoc_*`),
  of the workspace's declared-name and format caches (built privately, published, replaced but
  never modified) and of the semantic-token arrays.  A new un-copied escape that is appended to
  or written through is therefore an uncovered row: `HL.Props.C14.escapes_covered` fails and
  the build log names the store, the function and the line. -/

/-- the protection scheme of a store: inferred from its rows in the regenerated escape table
    (a store nobody writes after publication gets the strictest scheme, `immutableAfterInit`) -/
def storeProtection (s : Store) : Protection :=
  inferFrom ((escapes.filter fun e => e.store == s).map (·.toRow))

/-- Is the escape row an instance of the protection stated for its store? -/
def escapeCovered (e : Escape Store Lock) : Bool := coveredBy (storeProtection e.store) e.toRow

def uncoveredEscapes : List (Escape Store Lock) := escapes.filter fun e => !escapeCovered e

/-- Functions of other modules that may be handed a reference into shared memory: they only
    read what they are given. -/
def readOnlyExternals : List String :=
  ["strings.Join", "fmt.Sprintf", "fmt.Sprint", "fmt.Errorf", "encoding/json.Marshal", "slices.Contains",
   "slices.Index", "slices.Equal", "slices.BinarySearch", "sort.SearchStrings", "maps.Keys", "maps.Values"]

def externalsOK : Bool := externalUses.all fun f => readOnlyExternals.contains f

def holds (r : Row Loc Lock) (l : Lock) (needExcl : Bool) : Bool :=
  r.locks.any fun x => x.1 == l && (!needExcl || x.2 == .excl)

/-- Is the row an instance of the protection stated for its location?  Accesses by the
    initialisation thread and accesses to an object that is still private to its creator
    (`fresh`) are covered by every protection. -/
def covered (r : Row Loc Lock) : Bool :=
  r.fresh || r.role == .init ||
  match protection r.loc with
  | .guardedBy l => holds r l (r.kind == .write)
  | .atomicCell => r.atomic
  | .immutableAfterInit => r.kind == .read
  | .mainOnly => r.role == .main
  | .mainOwned l =>
    if r.role == .main then r.kind == .read || holds r l true
    else r.kind == .read && holds r l false

def uncovered : List (Row Loc Lock) := accessTable.filter fun r => !covered r

/-- The lock order the deadlock proof relies on: Workspace.mu may be held while Loader.mu is
    taken (Workspace.Initialize → Loader.Load), publishMu while docVerMu is taken
    (publishIfCurrent → isCurrentDocVersion), refreshMu while settingsMu or Loader.mu is taken
    (applyConfiguration → isNewestRefresh / getSettings / setSettings → SetLimits, reinitCLI),
    never the other way round; settingsMu is an innermost lock (nothing is taken while it is
    held), the token-cache mutex is taken with nothing else held. -/
def relaxRank (r : Lock → Nat) : Lock → Nat := fun b =>
  (lockOrder.filter fun e => e.2 == b).foldl (fun m e => max m (r e.1 + 1)) (r b)

def iterRank : Nat → (Lock → Nat) → (Lock → Nat)
  | 0, r => r
  | n + 1, r => iterRank n (relaxRank r)

/-- Ranks for the deadlock proof, computed from the regenerated lock-order edges (longest path
    ending in the lock, by |locks| rounds of relaxation): every edge goes from a smaller to a
    larger rank iff the order is acyclic — checked by `HL.Props.C14.lock_order_acyclic`.  No
    mutex is named here, so renaming one changes nothing. -/
def lockRank : Lock → Nat := iterRank Lock.all.length (fun _ => 0)

/-- structs that own a mutex: the per-type lock identity of the table is exact only while
    these are constructed during initialisation -/
def lockOwners : List String := ["Server", "Workspace", "Loader", "semanticTokensCache"]

def constructedOK : Bool :=
  constructed.all fun c => !(lockOwners.contains c.1) || c.2.1 == .init

/-- no goroutine is started by the initialisation code (NewServer / SetClient / Initialize) -/
def noSpawnInInit : Bool := spawns.all fun s => s.1 != .init

/-- the schemes inferred for the current source, for the reader (and the evidence of C14) -/
def protectionReport : List String :=
  ((accessTable.map (·.loc)).eraseDups.map fun l => s!"{repr l}: {repr (protection l)}") ++
  ((escapes.map (·.store)).eraseDups.map fun s => s!"store {s.name}: {repr (storeProtection s)}")

end HL.Generated.AccessExpect
