import HL.Driver.Util
import HL.Driver.AstJson
import HL.Model.Parser
import HL.Model.ParserUnicode
open Lean

/-! op `parse.tokens`: the parser model on the real lexer's complete token stream.
    input  `toks` : tokens (AstJson `tokOf`)
    model  `{"j": journal, "errs": [parse errors]}` — compared with `parser.Parse(text)`. -/
namespace HL.Driver.Parse
open HL HL.Parser HL.Driver

def goClasses : Classes := ⟨Uni.isLetter, Uni.isDigit⟩

def runTokens (toks : List Token) : Json :=
  let (j, errs) := parseTokens defaultNumDeps goClasses toks
  Json.mkObj [("j", journalJ j), ("errs", arrJ perrJ errs)]

def tokens (j : Json) : Json :=
  let toks := arrOf tokOf (jget j "toks")
  Json.mkObj [("model", runTokens toks)]

def handle (op : String) (j : Json) : Option Json :=
  match op with
  | "parse.tokens" => some (tokens j)
  | _ => none

end HL.Driver.Parse
