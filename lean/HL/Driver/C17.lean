import HL.Driver.Util
import HL.Driver.AstJson
import HL.Model.SemTok
import HL.Spec.SemTokSpec
open Lean HL HL.SemTok HL.SemTokSpec

namespace HL.Driver.C17

/-- A document as the harness sends it: text, the real lexer's tokens for it, and the
    non-ASCII code points of the text that Go's `unicode.IsLetter` / `unicode.IsDigit` accept. -/
structure LDoc where
  text : Bytes
  toks : List Token
  letters : List Nat
  digits : List Nat

def LDoc.cls (d : LDoc) : Classes where
  isLetter r := if r < 0x80 then Classes.ascii.isLetter r else d.letters.contains r
  isDigit r := if r < 0x80 then Classes.ascii.isDigit r else d.digits.contains r

def parseDoc (j : Json) : LDoc :=
  { text := jhex j "t", toks := arrOf tokOf (jget j "toks"),
    letters := (jarr j "L").toList.map asNat, digits := (jarr j "D").toList.map asNat }

def cfg : Cfg LDoc where
  isEmpty d := d.text.isEmpty
  tok d := tokenize d.cls d.text d.toks

def dataJ (d : Data) : Json := natArr (d.map (·.toNat))

def editJ (e : Edit) : Json :=
  Json.mkObj [("s", e.start.toNat), ("d", e.deleteCount.toNat), ("data", dataJ e.data)]

def respJ : Resp → Json
  | .none => .null
  | .tokens id d => Json.mkObj [("id", id), ("data", dataJ d)]
  | .delta id es => Json.mkObj [("id", id), ("edits", Json.arr (es.toArray.map editJ))]

def parseReq (j : Json) : Req LDoc :=
  let u := jstr j "u"
  match jstr j "k" with
  | "set" => .setDoc u (parseDoc (jget j "doc"))
  | "close" => .close u
  | "full" => .full u
  | "delta" => .delta u (jstr j "prev")
  | _ => .range u (UInt32.ofNat (jnat j "lo")) (UInt32.ofNat (jnat j "hi"))

def legend (j : Json) : Json :=
  let impl := jget j "impl"
  let nT := (jarr impl "types").size
  let nM := (jarr impl "mods").size
  -- the legend the validators use is the one the model states; it must be the advertised one
  Json.mkObj [("model", Json.mkObj [("types", toJson legendTypes), ("mods", toJson legendMods)]),
    ("spec_ok", nT == legendTypes.length && nM == legendMods.length), ("in_domain", true),
    ("why", "advertised legend has a different size")]

def implData (j : Json) (k : String) : Data := (jarr j k).toList.map fun x => UInt32.ofNat (asNat x)

def nTypes : Nat := legendTypes.length
def nMods : Nat := legendMods.length

/-- Which known deviation explains a token that does not cover its lexeme (source token `t`,
    model token `s`); `none` = unexplained.  None is open: the findings crlf-comment-length,
    code-length, quoted-commodity-length, tag-byte-offsets, tag-search-position,
    text-trimmed-position and nonbmp-column are repaired and excuse nothing any more
    (`devPipe` names a shape the current lexer cannot produce; the id is `fixed`). -/
def excuse (_s : SemToken) (t : Token) : Option String :=
  if devPipe t then some "pipe-position"
  else none

structure Verdict where
  ok : Bool := true
  known : List String := []
  unexplained : Bool := false
  why : String := ""

def Verdict.fail (v : Verdict) (why : String) : Verdict :=
  { v with ok := false, unexplained := true, why := if v.why.isEmpty then why else v.why }

def Verdict.excused (v : Verdict) (id : String) (why : String) : Verdict :=
  { v with ok := false, known := if v.known.contains id then v.known else v.known ++ [id],
           why := if v.why.isEmpty then why else v.why }

/-- The validators of the property on the decoded IMPLEMENTATION array.  `src` = the model's
    tokens with their source lexer tokens, used (only when model = impl) to attribute a
    failing token to a known deviation. -/
def judge (d : LDoc) (impl : Data) : Verdict := Id.run do
  let abs := decode impl
  let lens := lineLens16 d.text
  let src := tokenizeSrc d.cls d.text d.toks
  let aligned := encodeTokens (src.map (·.1)) == impl
  let mut v : Verdict := {}
  if impl.length % 5 != 0 then v := v.fail "array length is not a multiple of 5"
  if !(abs.all (legendOk nTypes nMods)) then v := v.fail "token type or modifiers outside the legend"
  if !(weaklyOrdered abs) then v := v.fail "tokens not in document order"
  let absA := abs.toArray
  let srcA := src.toArray
  let mut bad : Array Bool := #[]
  for i in [0:absA.size] do
    let a := absA[i]!
    if aligned then
      let (s, t) := srcA[i]!
      let isTag := t.ty == .comment && (s.ty == tyTag || s.ty == tyTagValue)
      let ok := inLine lens a && (if isTag then coversTag d.cls d.text t a else coversTok d.text t a)
      bad := bad.push (!ok)
      if !ok then
        let what := s!"token {i} (line {a.line} start {a.start} len {a.len} type {a.ty}) " ++
          (if inLine lens a then "does not cover its lexeme" else "leaves its line")
        match excuse s t with
        | some id => v := v.excused id what
        | none => v := v.fail what
    else
      let ok := inLine lens a && coversOk d.cls d.text d.toks a
      bad := bad.push (!ok)
      if !ok then v := v.fail s!"token {i} (line {a.line} start {a.start} len {a.len} type {a.ty}) covers no lexeme"
  for i in [0:absA.size - 1] do
    let a := absA[i]!
    let b := absA[i+1]!
    if !(a.line < b.line || (a.line == b.line && a.start + a.len ≤ b.start)) then
      -- two tokens that both cover their lexemes cannot overlap: an overlap is a consequence
      -- of a (known or unknown) misplaced neighbour
      if !(bad[i]! || bad[i+1]!) then v := v.fail s!"tokens {i} and {i+1} overlap"
      else if v.why.isEmpty then v := { v with ok := false, why := s!"tokens {i} and {i+1} overlap" }
  return v

def verdictFields (v : Verdict) (dom : Bool) : List (String × Json) :=
  [("spec_ok", !dom || v.ok), ("in_domain", dom),
   ("known", toJson (if v.unexplained then ([] : List String) else v.known)), ("why", v.why)]

/-- The lexer's contract (HL/Spec/SemTokSpec.lean) on this lexer output: the hypotheses of
    `ordered_disjoint`, `encode_decode_tokenize` and `tag_tokens_placed` (HL/Props/C17.lean). -/
def contractOk (d : LDoc) : Bool :=
  extentsB d.text d.toks && cutsB d.text d.toks && (mappedBody d.toks).all (lineOk d.text)

/-- ... together with the lexer-side fact `lexer_comment_no_cr` (HL/Props/C17.lean: in a text of
    the property's domain no comment value ends with a CR — proved for the lexer model,
    re-checked here on the real lexer's output): when they hold `ordered_disjoint_inline` and
    `covers_lexeme` say the model's tokens are ordered, disjoint, inside their lines, and every
    token that is not cut out of a comment covers its lexeme. -/
def hypOk (d : LDoc) : Bool :=
  contractOk d && (mappedBody d.toks).all fun t => !devCrComment t

def tokens (j : Json) : Json :=
  let d := parseDoc (jget j "doc")
  let data := if d.text.isEmpty then [] else encodeTokens (cfg.tok d)
  let impl := implData j "impl"
  let dom := inDomain d.text
  let v := judge d impl
  let hyp := hypOk d
  Json.mkObj ([("model", dataJ data), ("nontrivial", dom && !impl.isEmpty && v.ok && hyp),
    ("hyp_ok", hyp), ("contract_ok", contractOk d)] ++ verdictFields v dom)

def absJ (a : AbsTok) : Json := natArr [a.line, a.start, a.len, a.ty, a.mods]

def range (j : Json) : Json :=
  let d := parseDoc (jget j "doc")
  let lo := UInt32.ofNat (jnat j "lo")
  let hi := UInt32.ofNat (jnat j "hi")
  let data := if d.text.isEmpty then [] else encodeTokens (filterByRange lo hi (cfg.tok d))
  let impl := implData j "impl"
  let full := implData j "full"
  let ok := decode impl == restrict lo.toNat hi.toNat (decode full)
  Json.mkObj [("model", dataJ data), ("spec_ok", ok), ("in_domain", true),
    ("why", "range result is not the full result restricted to the requested lines"),
    ("nontrivial", !impl.isEmpty && impl != full)]

def parseEdit (j : Json) : Edit :=
  { start := UInt32.ofNat (jnat j "s"), deleteCount := UInt32.ofNat (jnat j "d"), data := implData j "data" }

def parseResp (j : Json) : Resp :=
  match j with
  | .null => .none
  | j => if jhas j "edits" then .delta (jstr j "id") ((jarr j "edits").toList.map parseEdit)
         else .tokens (jstr j "id") (implData j "data")

/-- op c17.hist.  model = the model server's response to every step.
    Oracle: a remembering client (HL.SemTokSpec.Client) is fed the IMPLEMENTATION's responses;
    after every full / delta response the array it shows must equal "ref" — the
    implementation's full result for the current text, obtained by the harness with a range
    request over all lines right after the response (no effect on the cache).  Result ids issued
    in the history must be pairwise different. -/
def hist (j : Json) : Json := Id.run do
  let stepsJ := jarr j "steps"
  let impl := jarr j "impl"
  let mut s : Srv LDoc := { next := UInt64.ofNat (jnat j "base") }
  let mut c : Client := {}
  let mut out : Array Json := #[]
  let mut ok := true
  let mut why := ""
  let mut ids : List String := []
  let mut sawDelta := false
  let mut i := 0
  for sj in stepsJ do
    let r := parseReq sj
    let (s', resp) := step cfg s r
    s := s'
    out := out.push (respJ resp)
    let ir := parseResp (impl[i]?.getD .null)
    c := c.step r ir
    let target : Option Uri := match r with
      | .full u => some u
      | .delta u _ => some u
      | _ => none
    match target with
    | some u =>
      let ref := implData sj "ref"
      if c.shown u != some ref then
        if ok then why := s!"step {i}: the client's array differs from the full result for the current text"
        ok := false
      match ir with
      | .delta id _ => sawDelta := true; if id != "" then ids := id :: ids
      | .tokens id _ => if id != "" then ids := id :: ids
      | .none => pure ()
    | none => pure ()
    i := i + 1
  if !(ids.Pairwise (· ≠ ·)) then
    if ok then why := "a result id was issued twice"
    ok := false
  return Json.mkObj [("model", Json.arr out), ("spec_ok", ok), ("in_domain", true), ("why", why),
    ("nontrivial", sawDelta)]

def handle (op : String) (j : Json) : Option Json :=
  match op with
  | "c17.legend" => some (legend j)
  | "c17.tokens" => some (tokens j)
  | "c17.range" => some (range j)
  | "c17.hist" => some (hist j)
  | _ => none

end HL.Driver.C17
