import HL.Driver.Util
import HL.Driver.AstJson
import HL.Model.SemTok
open Lean HL HL.SemTok

namespace HL.Driver.C17

/-- A document as the harness sends it: text, the real lexer's tokens for it, and the
    non-ASCII code points of the text that Go's `unicode.IsLetter` / `unicode.IsDigit` accept. -/
structure LDoc where
  text : Bytes
  toks : List Token
  letters : List Nat
  digits : List Nat

def LDoc.cls (d : LDoc) : Classes where
  isLetter r := if r < 0x80 then Classes.ascii.isLetter r else d.letters.contains r
  isDigit r := if r < 0x80 then Classes.ascii.isDigit r else d.digits.contains r

def parseDoc (j : Json) : LDoc :=
  { text := jhex j "t", toks := arrOf tokOf (jget j "toks"),
    letters := (jarr j "L").toList.map asNat, digits := (jarr j "D").toList.map asNat }

def cfg : Cfg LDoc where
  isEmpty d := d.text.isEmpty
  tok d := tokenize d.cls d.toks

def dataJ (d : Data) : Json := natArr (d.map (·.toNat))

def editJ (e : Edit) : Json :=
  Json.mkObj [("s", e.start.toNat), ("d", e.deleteCount.toNat), ("data", dataJ e.data)]

def respJ : Resp → Json
  | .none => .null
  | .tokens id d => Json.mkObj [("id", id), ("data", dataJ d)]
  | .delta id es => Json.mkObj [("id", id), ("edits", Json.arr (es.toArray.map editJ))]

def parseReq (j : Json) : Req LDoc :=
  let u := jstr j "u"
  match jstr j "k" with
  | "set" => .setDoc u (parseDoc (jget j "doc"))
  | "close" => .close u
  | "full" => .full u
  | "delta" => .delta u (jstr j "prev")
  | _ => .range u (UInt32.ofNat (jnat j "lo")) (UInt32.ofNat (jnat j "hi"))

def legend (_ : Json) : Json :=
  Json.mkObj [("model", Json.mkObj [("types", toJson legendTypes), ("mods", toJson legendMods)])]

def tokens (j : Json) : Json :=
  let d := parseDoc (jget j "doc")
  let data := if d.text.isEmpty then [] else encodeTokens (cfg.tok d)
  Json.mkObj [("model", dataJ data)]

def range (j : Json) : Json :=
  let d := parseDoc (jget j "doc")
  let lo := UInt32.ofNat (jnat j "lo")
  let hi := UInt32.ofNat (jnat j "hi")
  let data := if d.text.isEmpty then [] else encodeTokens (filterByRange lo hi (cfg.tok d))
  Json.mkObj [("model", dataJ data)]

def hist (j : Json) : Json := Id.run do
  let reqs := (jarr j "steps").toList.map parseReq
  let mut s : Srv LDoc := { next := UInt64.ofNat (jnat j "base") }
  let mut out : Array Json := #[]
  for r in reqs do
    let (s', resp) := step cfg s r
    s := s'
    out := out.push (respJ resp)
  return Json.mkObj [("model", Json.arr out)]

def handle (op : String) (j : Json) : Option Json :=
  match op with
  | "c17.legend" => some (legend j)
  | "c17.tokens" => some (tokens j)
  | "c17.range" => some (range j)
  | "c17.hist" => some (hist j)
  | _ => none

end HL.Driver.C17
