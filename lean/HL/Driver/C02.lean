import HL.Driver.Util
import HL.Driver.AstJson
import HL.Model.Dec
import HL.Model.Num
import HL.Model.Balance
import HL.Model.HoverText
import HL.Spec.Number
import HL.Spec.BalanceSpec
open Lean

/-! Driver ops for C02 / C20: `dec.*`, `num.*`, `c02.*`, `c20.*` (mirror: harness/c02.go). -/
namespace HL.Driver.C02
open HL HL.Ast HL.Spec.Bal

/-! ### decoding -/

def digitsOf (s : String) : List G.Digit := s.toList.map fun c => Fin.ofNat 10 (c.toNat - 48)

def optByte (j : Json) : Option UInt8 := match j with
  | .null => none
  | j => some (UInt8.ofNat (asNat j))

def expOf (j : Json) : Option G.Exponent := match j with
  | .null => none
  | j => some ⟨jbool j "up", (match jnat j "sign" with | 1 => .plus | 2 => .minus | _ => .none), digitsOf (jstr j "digits")⟩

def numberOf (j : Json) : G.Number :=
  ⟨jbool j "neg", digitsOf (jstr j "int"), optByte (jget j "group"), optByte (jget j "mark"),
   digitsOf (jstr j "frac"), expOf (jget j "exp")⟩

/-- ground truth of one amount: the notation it was written in and its commodity. -/
structure TAmount where
  n : G.Number
  c : Bytes

structure TPosting where
  kind : Virtual
  account : Bytes
  amount : Option TAmount
  cost : Option (Bool × TAmount)
  risky : List String   -- layouts used on this line that the pinned parser rejects

def tamountOf (j : Json) : TAmount := ⟨numberOf (jget j "n"), jhex j "c"⟩
def tpostingOf (j : Json) : TPosting :=
  ⟨virtOf (jget j "kind"), jhex j "acct", optOf tamountOf (jget j "amt"),
   optOf (fun c => (jbool c "total", tamountOf c)) (jget j "cost"), arrOf asStr (jget j "risky")⟩

/-- the rational transaction the text was written from; -/
def truthTx (ps : List TPosting) : RTx :=
  let v (n : G.Number) : Rat := G.value n
  ps.map fun p => ⟨p.kind, p.account, p.amount.map fun a => ⟨v a.n, a.c⟩,
    p.cost.map fun (t, a) => ⟨t, v a.n, a.c⟩⟩

/-! ### encoding -/

def sortKV {β} (l : List (Bytes × β)) : List (Bytes × β) :=
  (l.toArray.qsort (fun a b => hex a.1 < hex b.1)).toList

def sumsJ (l : Balance.Sums) : Json := Json.arr ((sortKV l).toArray.map fun (k, v) => Json.arr #[hx k, decJ v])

def resultJ : Option Balance.Result → Json
  | none => Json.str "panic"
  | some r => Json.mkObj [("balanced", r.balanced), ("diffs", sumsJ r.differences), ("idx", toJson r.inferredIdx)]

/-- decode an implementation result into a verdict over rationals. -/
def implVerdict (j : Json) : Option Verdict :=
  match j with
  | .str _ => none
  | j =>
    let diffs : List (Bytes × Rat) := (jarr j "diffs").toList.map fun e => match e with
      | .arr a => (unhx a[0]!, Dec.toRat (decOf a[1]!))
      | _ => ([], 0)
    let bal := jbool j "balanced"
    if bal then (if diffs.isEmpty then some .ok else none)
    else if diffs.isEmpty then (if jint j "idx" == -1 then some .multiple else none)
    else some (.unbalanced diffs)

def verdictEq : Verdict → Verdict → Bool
  | .ok, .ok => true
  | .multiple, .multiple => true
  | .unbalanced a, .unbalanced b => sortKV a == sortKV b
  | _, _ => false

/-! ### ops -/

def decParse (j : Json) : Json :=
  match Dec.ofString (jhex j "s") with
  | none => Json.mkObj [("model", Json.mkObj [("ok", false)])]
  | some d =>
    -- String() of a decimal with a huge exponent is not asked of either side
    if d.exp ≤ 200 && d.exp ≥ -200 then
      Json.mkObj [("model", Json.mkObj [("ok", true), ("d", decJ d), ("str", hx (Dec.toString d))])]
    else Json.mkObj [("model", Json.mkObj [("ok", true), ("d", decJ d)])]

def decOps (j : Json) : Json :=
  let a := decOf (jget j "a")
  let b := decOf (jget j "b")
  let p := jint j "p"
  let small : List (String × Json) := [
    ("mul", match Dec.mul a b with | some m => decJ m | none => Json.str "panic"),
    ("neg", decJ (Dec.neg a)), ("abs", decJ (Dec.abs a)),
    ("zero", Dec.isZero a), ("negative", Dec.isNegative a), ("positive", Dec.isPositive a)]
  -- "big": exponents near the int32 border; operations that rescale are not asked of either side
  if jbool j "big" then Json.mkObj [("model", Json.mkObj small)] else
  Json.mkObj [("model", Json.mkObj (small ++ [
    ("add", decJ (Dec.add a b)), ("sub", decJ (Dec.sub a b)),
    ("cmp", toJson (Dec.cmp a b)), ("eq", Dec.equal a b),
    ("str", hx (Dec.toString a)), ("fixed", hx (Dec.stringFixed a p)), ("round", decJ (Dec.round a p))]))]

def numNormalize (j : Json) : Json :=
  Json.mkObj [("model", hx (Num.normalizeNumber (jhex j "s")))]

/-- op num.amount: a notation printed by `G.render`, read by the real lexer + parseAmount. -/
def numAmount (j : Json) : Json :=
  let n := numberOf (jget j "n")
  let raw := G.render n
  let q := Num.quantity n.neg raw
  -- `raw` is reported only when an amount was parsed
  let model := Json.mkObj [("raw", if q.isSome then hx raw else .null), ("q", match q with | some d => decJ d | none => .null)]
  let dom := G.wf n && !G.shapeA n
  let impl := jget j "impl"
  let implQ : Option Rat := if jhas impl "q" then some (Dec.toRat (decOf (jget impl "q"))) else none
  let ok := implQ == some (G.value n)
  let known : Array Json := #[]
  Json.mkObj [("model", model), ("in_domain", dom), ("spec_ok", !dom || ok), ("known", Json.arr known),
    ("why", "quantity read from the text differs from the value written"),
    ("nontrivial", dom)]

/-- Judge one transaction: `img` what the parser produced (rational image), `truth` what was
    written, `iv` the implementation's verdict.  Returns (ok, known ids, why). -/
def judge (img : RTx) (truth : List TPosting) (iv : Option Verdict) : Bool × Array Json × String :=
  let t := truthTx truth
  let faithful := img == t
  let verdictOk := match iv with | some v => verdictEq v (verdict t) | none => false
  if faithful && verdictOk then (true, #[], "") else
  -- known parser findings: the first line printed with a rejected layout, and everything the
  -- parser produced before that line is as written
  let firstRisky := truth.findIdx? fun p => !p.risky.isEmpty
  let layoutKnown : Array Json := match firstRisky with
    | some i => if !faithful && img.take i == t.take i then ((truth.drop i).head?.map (·.risky)).getD [] |>.toArray.map Json.str else #[]
    | none => #[]
  let known : Array Json := layoutKnown
  let why := if !faithful then s!"parsed postings differ from the transaction written: {repr img} vs {repr t}" else "verdict differs from the exact-sum rule"
  (false, known, why)

def c02Check (j : Json) : Json :=
  let truth := arrOf tpostingOf (jget j "truth")
  let dom := jbool j "dom"
  if !jhas j "tx" then
    Json.mkObj [("model", Json.mkObj [("parse", false)]), ("in_domain", dom), ("spec_ok", !dom),
      ("why", "the text did not parse into one transaction")]
  else
  let tx := txOf (jget j "tx")
  let model := resultJ (Balance.check tx)
  let (ok, known, why) := judge (image tx) truth (implVerdict (jget j "impl"))
  Json.mkObj [("model", model), ("in_domain", dom), ("spec_ok", !dom || ok), ("known", Json.arr known),
    ("why", why)]

def diagJ (tx : Transaction) : Option Json :=
  match Balance.check tx with
  | none => some (Json.mkObj [("code", "panic")])
  | some r =>
    if r.balanced then none else
    match Balance.balanceDiagnostic r with
    | (.multipleInferred, msg) => some (Json.mkObj [("code", "MULTIPLE_INFERRED"), ("line", tx.range.start.line),
        ("sev", (0 : Nat)), ("msg", hx msg)])
    | (.unbalanced, msg) => some (Json.mkObj [("code", "UNBALANCED"), ("line", tx.range.start.line),
        ("sev", (0 : Nat)), ("msg", hx msg)])

/-- split at every occurrence of `sep` (non-empty); structural on fuel. -/
def splitSeqF (sep : Bytes) : Nat → Bytes → Bytes → List Bytes → List Bytes
  | 0, cur, _, acc => (cur.reverse :: acc).reverse
  | fuel + 1, cur, rest, acc =>
    match rest with
    | [] => (cur.reverse :: acc).reverse
    | c :: r =>
      if rest.take sep.length == sep then splitSeqF sep fuel [] (rest.drop sep.length) (cur.reverse :: acc)
      else splitSeqF sep fuel (c :: cur) r acc

def splitSeq (sep s : Bytes) : List Bytes := splitSeqF sep (s.length + 1) [] s []

/-- "transaction does not balance: A off by 1; B off by 2" → [(A, 1), (B, 2)], numbers read by
    the decimal model. -/
def parseMessage (msg : Bytes) : Option (List (Bytes × Rat)) :=
  let pre := bs "transaction does not balance: "
  if msg.take pre.length != pre then none else
  let segs := splitSeq (bs "; ") (msg.drop pre.length)
  let parts := segs.map fun seg =>
    match (splitSeq (bs " off by ") seg).reverse with
    | num :: revCom =>
      let com := (revCom.reverse.intersperse (bs " off by ")).flatten
      (com, (Dec.ofString num).map Dec.toRat)
    | [] => ([], none)
  if parts.isEmpty || parts.any (fun p => p.2.isNone) then none
  else some (parts.map fun p => (p.1, p.2.getD 0))

/-- the verdict a published diagnostic states, numbers parsed back from the message. -/
def diagVerdict (d : Option Json) : Option Verdict :=
  match d with
  | none => some .ok
  | some d =>
    match jstr d "code" with
    | "MULTIPLE_INFERRED" => some .multiple
    | "UNBALANCED" => (parseMessage (jhex d "msg")).map .unbalanced
    | _ => none

def c02Diag (j : Json) : Json := Id.run do
  let txs := arrOf txOf (jget j "txs")
  let truth := arrOf (arrOf tpostingOf) (jget j "truth")
  let dom := jbool j "dom"
  let impl := (jarr j "impl").toList
  let model := Json.arr (txs.filterMap diagJ).toArray
  let mut ok := true
  let mut kn : Array Json := #[]
  let mut why := ""
  if txs.length != truth.length then
    ok := false
    why := "number of transactions parsed differs from the number written"
  else
    for (tx, t) in txs.zip truth do
      let ds := impl.filter fun d => jnat d "line" == tx.range.start.line
      let iv := match ds with
        | [] => diagVerdict none
        | [d] => diagVerdict (some d)
        | _ => none
      let (o, k, w) := judge (image tx) t iv
      if !o then
        ok := false
        why := w
        if k.isEmpty then kn := kn.push (Json.str "<none>") else kn := kn ++ k
  -- "<none>" marks an unexplained failure: no excuse
  let known : Array Json := if kn.contains (Json.str "<none>") then #[] else kn
  return Json.mkObj [("model", model), ("in_domain", dom), ("spec_ok", !dom || ok), ("known", Json.arr known), ("why", why)]

/-- Op `c02.session`: the versions of one document on one long-lived server; version `i` is
    judged exactly like a `c02.diag` case whose `impl` is the list of balance diagnostics the
    server PUBLISHED for that version. -/
def c02Session (j : Json) : Json := Id.run do
  let vers := (jarr j "vers").toList
  let impls := (jarr j "impl").toList
  let mut models : Array Json := #[]
  let mut ok := true
  let mut dom := true
  let mut known : Array Json := #[]
  let mut unexplained := false
  let mut why := ""
  let mut i := 0
  for v in vers do
    let r := c02Diag (v.setObjVal! "impl" (impls.getD i (Json.arr #[])))
    models := models.push (jget r "model")
    dom := dom && jbool r "in_domain"
    if !(jbool r "spec_ok") then
      ok := false
      why := s!"version {i + 1}: {jstr r "why"}"
      let k := jarr r "known"
      if k.isEmpty then unexplained := true else known := known ++ k
    i := i + 1
  if impls.length != vers.length then
    ok := false
    unexplained := true
    why := "number of published diagnostics lists differs from the number of versions"
  return Json.mkObj [("model", Json.arr models), ("in_domain", dom), ("spec_ok", ok),
    ("known", if unexplained then Json.arr #[] else Json.arr known), ("why", why)]

/-! ### C20 -/

def balancesJ (b : Balance.AccountBalances) : Json :=
  Json.arr ((sortKV b).toArray.map fun (k, v) => Json.arr #[hx k, sumsJ v])

def flatBalances (j : Json) : List (Bytes × Bytes × Rat) :=
  match j with
  | .arr a => a.toList.flatMap fun e => match e with
    | .arr p => (match p[1]! with
      | .arr cs => cs.toList.map fun ce => match ce with
        | .arr q => (unhx p[0]!, unhx q[0]!, Dec.toRat (decOf q[1]!))
        | _ => ([], [], 0)
      | _ => [])
    | _ => []
  | _ => []

def expectedBalances (txs : List RTx) : List (Bytes × Bytes × Rat) :=
  let keys := (explicit txs).map fun (a, c, _) => (a, c)
  let keys := keys.foldl (fun acc k => if acc.contains k then acc else acc ++ [k]) []
  keys.map fun (a, c) => (a, c, accountSum txs a c)

def sortABC (l : List (Bytes × Bytes × Rat)) : List (Bytes × Bytes × Rat) :=
  (l.toArray.qsort fun x y => hex x.1 < hex y.1 || (x.1 == y.1 && hex x.2.1 < hex y.2.1)).toList

def c20Balances (j : Json) : Json :=
  let txs := arrOf txOf (jget j "txs")
  let truth := arrOf (arrOf tpostingOf) (jget j "truth")
  let b := balancesJ (Balance.accountBalances txs)
  let model := Json.mkObj [("fromTransactions", b), ("fromJournal", b)]
  let impl := jget j "impl"
  let t := truth.map truthTx
  let img := txs.map image
  let implA := sortABC (flatBalances (jget impl "fromTransactions"))
  let implB := sortABC (flatBalances (jget impl "fromJournal"))
  let faithful := img == t
  let ok := faithful && implA == sortABC (expectedBalances t) && implB == implA
  Json.mkObj [("model", model), ("in_domain", true), ("spec_ok", ok),
    ("why", if faithful then "account balances differ from the exact sums" else "parsed postings differ from the journal written")]

/-- first-occurrence dedup. -/
def dedupBy {α} (key : α → String) (l : List α) : List α :=
  (l.foldl (fun (acc : List String × List α) x =>
    if acc.1.contains (key x) then acc else (key x :: acc.1, acc.2 ++ [x])) ([], [])).2

def splitOn (sep : UInt8) (s : Bytes) : List Bytes :=
  (s.foldr (fun c (acc : List Bytes) => if c == sep then [] :: acc else
    match acc with | [] => [[c]] | h :: t => (c :: h) :: t) [[]])

/-- figures printed in an account hover: balance lines `- N C` and the postings count. -/
def accountFigures (text : Bytes) : List (Bytes × Option Rat) × Option Nat :=
  let lines := splitOn 10 text
  let bals := lines.filterMap fun l => match l with
    | 45 :: 32 :: rest =>
      let num := rest.takeWhile (· != 32)
      let com := (rest.dropWhile (· != 32)).drop 1
      some (com, (Dec.ofString num).map Dec.toRat)
    | _ => none
  let pre := bs "**Postings:** "
  let cnt := lines.findSome? fun l => if l.take pre.length == pre then Dec.parseNat (l.drop pre.length) else none
  (bals, cnt)

def c20Hover (j : Json) : Json :=
  let txs := arrOf txOf (jget j "txs")
  let truth := arrOf (arrOf tpostingOf) (jget j "truth")
  let b := Balance.accountBalances txs
  let ps := txs.flatMap (·.postings)
  let accounts := dedupBy hex (ps.map (·.account.name))
  let payees := dedupBy hex ((txs.map HoverText.payeeOrDescription).filter (· ≠ []))
  let tagsOf (tx : Transaction) : List Tag := tx.comments.flatMap (·.tags) ++ tx.postings.flatMap (·.tags)
  let tags := dedupBy (fun (t : Tag) => hex t.name ++ ":" ++ hex t.value) (txs.flatMap tagsOf)
  let model := Json.mkObj [
    ("accounts", Json.arr (accounts.toArray.map fun a => Json.arr #[hx a, hx (HoverText.accountHover a b txs)])),
    ("payees", Json.arr (payees.toArray.map fun p => Json.arr #[hx p, hx (HoverText.payeeHover p txs)])),
    ("amounts", Json.arr ((ps.filterMap fun p => p.amount.map fun a => hx (HoverText.amountHover a p.cost)).toArray)),
    ("tags", Json.arr (tags.toArray.map fun t => Json.arr #[hx t.name, hx t.value,
        hx (HoverText.tagValueHover t.name t.value txs), toJson (Balance.countTagUsage t.name txs)]))]
  -- oracle: the figures printed in the implementation's account hovers against the ground truth
  let t := truth.map truthTx
  let faithful := txs.map image == t
  let impl := jget j "impl"
  let accOk := (jarr impl "accounts").toList.all fun e => match e with
    | .arr a =>
      let name := unhx a[0]!
      let (bals, cnt) := accountFigures (unhx a[1]!)
      let expected := (expectedBalances t).filter (fun x => x.1 == name) |>.map fun x => (x.2.1, some x.2.2)
      cnt == some (postingCount t name) && sortKV bals == sortKV expected
    | _ => false
  let accAll := (jarr impl "accounts").size == (dedupBy hex ((t.flatMap id).map (·.account))).length
  let ok := faithful && accOk && accAll
  Json.mkObj [("model", model), ("in_domain", true), ("spec_ok", ok),
    ("why", if faithful then "figures in an account hover differ from the exact aggregates" else "parsed postings differ from the journal written")]

def handle (op : String) (j : Json) : Option Json :=
  match op with
  | "dec.parse" => some (decParse j)
  | "dec.ops" => some (decOps j)
  | "num.normalize" => some (numNormalize j)
  | "num.amount" => some (numAmount j)
  | "c02.check" => some (c02Check j)
  | "c02.diag" => some (c02Diag j)
  | "c02.session" => some (c02Session j)
  | "c20.balances" => some (c20Balances j)
  | "c20.hovertext" => some (c20Hover j)
  | _ => none

end HL.Driver.C02
