import HL.Driver.AstJson
import HL.Spec.GCore
import HL.Model.Pipeline
open Lean
/-!
  Ops for the core grammar `GCore` of C03 (theorems `HL.Props.C03.C03_faithful_core` and, for
  CRLF line ends, `C03_faithful_core_crlf`).  `cr` (absent = false) chooses the line end:
  `GCore.printC cr` / `GCore.expectedC cr`, which for `cr = false` are `GCore.print` /
  `GCore.expected` (`HL.Props.C03.printC_expectedC_false`).

  * `c03.gcore.print` — the harness asks for `GCore.printC cr j` (so the text the real parser sees
    is produced by the very function the theorem quantifies over).
  * `c03.gcore` — the case proper: `g` = the journal, `text` = what was printed and parsed,
    `impl` = the real parser's result.  model = `(printC cr j, expectedC cr j, [])` — by the
    theorem that is what the lexer+parser model returns on every well-formed journal, and the
    driver re-checks that on each case (`thm`; a disagreement is reported as a machinery error); spec_ok = the real parser reports no error and
    returns exactly the expected tree, ranges included.

  JSON of a journal: `[{"d":[y,m,d],"w":[word…],"p":[{"s":[seg…],"a":null|{"neg":b,"int":s,"frac":null|s,"com":null|s}}]}]`
  (ASCII strings).
-/
namespace HL.Driver.C03Core
open HL HL.Driver

def bytesOf (j : Json) : Bytes := (asStr j).toUTF8.toList

def gcAmountOf (j : Json) : GCore.Amount :=
  ⟨jbool j "neg", bytesOf (jget j "int"), optOf bytesOf (jget j "frac"), optOf bytesOf (jget j "com")⟩

def gcPostingOf (j : Json) : GCore.Posting :=
  ⟨arrOf bytesOf (jget j "s"), optOf gcAmountOf (jget j "a")⟩

def gcTxOf (j : Json) : GCore.Tx :=
  let d := arrOf bytesOf (jget j "d")
  ⟨⟨d.getD 0 [], d.getD 1 [], d.getD 2 []⟩, arrOf bytesOf (jget j "w"), arrOf gcPostingOf (jget j "p")⟩

def gcJournalOf (j : Json) : GCore.Journal := arrOf gcTxOf j

def printOp (j : Json) : Json :=
  Json.mkObj [("text", hx (GCore.printC (jbool j "cr") (gcJournalOf (jget j "g"))))]

def gcore (j : Json) : Json :=
  let g := gcJournalOf (jget j "g")
  let wf := GCore.WF g
  let impl := jget j "impl"
  let tree := journalOf (jget impl "journal")
  let errs := arrOf perrOf (jget impl "errors")
  let cr := jbool j "cr"
  let text := GCore.printC cr g
  let expected := GCore.expectedC cr g
  -- the lexer+parser model on the printed text
  let (mj, merrs) := HL.Pipeline.parseText Classes.go text
  -- what the theorem says about this case
  let thm := !wf || (mj == expected && merrs.isEmpty)
  let (oj, oerrs) := if wf then (expected, []) else (mj, merrs)
  let model := Json.mkObj [("text", hx text), ("journal", journalJ oj), ("errors", arrJ perrJ oerrs)]
  let ok := !wf || (errs.isEmpty && tree == expected)
  let why :=
    if !errs.isEmpty then
      s!"syntax error on a journal of the core grammar: {String.fromUTF8! (ByteArray.mk (errs.head!.msg.toArray))} at line {errs.head!.pos.line}"
    else if !ok then "the tree of a journal of the core grammar is not the tree it was written from"
    else ""
  if !thm then
    -- cannot happen (kernel-checked theorem); if it does, the machinery is broken, not the code
    Json.mkObj [("error", "the compiled model disagrees with theorem C03_faithful_core / C03_faithful_core_crlf on a well-formed GCore journal")]
  else
  Json.mkObj [("model", model), ("spec_ok", ok), ("in_domain", wf), ("known", Json.arr #[]),
    ("why", why), ("nontrivial", wf && !g.isEmpty)]

def handle (op : String) (j : Json) : Option Json :=
  match op with
  | "c03.gcore.print" => some (printOp j)
  | "c03.gcore" => some (gcore j)
  | _ => none

end HL.Driver.C03Core
