import HL.Driver.C02
import HL.Driver.C03Core
import HL.Spec.GCoreValue
import HL.Model.BalanceDiag
import HL.Model.Pipeline
open Lean
/-!
  Op `c02.gcore` — the tie between the code and theorem `HL.Props.C02.C02_pipeline_core`
  (text → published balance diagnostics, core grammar `GCore`).

  case:  `g`     the journal (JSON of `Driver/C03Core`), drawn by harness/c02core.go
         `text`  what `GCore.print g` printed (op `c03.gcore.print`) and the real code read
         `impl`  `{"diags": [...], "pub": [...]}`:
                 diags = the UNBALANCED / MULTIPLE_INFERRED diagnostics of the REAL
                         `analyzer.Analyze(parser.Parse(text))`, in order, with range, severity,
                         code, message;
                 pub   = what a REAL `Server` published for the text opened as a document
                         (line, severity, code, message of the balance diagnostics).
  model: the same two lists computed by the model chain on the text
         (`Pipeline.parseText` then `Balance.analyzeBalance`).
  spec_ok (judged on `impl`, from the journal AS WRITTEN, no tree involved): one diagnostic per
         transaction for which `verdict (GCore.txImage t)` is not `ok`, in order, at
         `GCore.located`'s range, severity error, the code the verdict demands; the
         MULTIPLE_INFERRED text; an UNBALANCED message parses into (commodity, number) pairs that
         are, as a finite map, exactly `{c ↦ |written sum of c| : ≠ 0}`; `pub` says the same per line.
  in_domain: `GCore.WF g`, and every transaction lies in the quantifier of property C02 (DESIGN
         7.C02): no transaction without cost has exactly two commodities out of balance (there
         hledger infers a price; the property is silent).  (ii) of that domain — a non-zero
         residual is at least one unit of the finest precision written — always holds here.
  The driver also re-checks the statement of the theorem on the case with the compiled model
  (`thm`); a disagreement is a machinery error, not a verdict about the code.
-/
namespace HL.Driver.C02Core
open HL HL.Driver HL.Spec.Bal HL.Balance

def codeName : Code → String
  | .unbalanced => "UNBALANCED"
  | .multipleInferred => "MULTIPLE_INFERRED"

def diagJ (d : BalDiag) : Json :=
  Json.mkObj [("r", rngJ d.range), ("sev", d.severity), ("code", codeName d.code), ("msg", hx d.message)]

def pubJ (d : BalDiag) : Json :=
  Json.mkObj [("line", d.range.start.line), ("sev", d.severity), ("code", codeName d.code), ("msg", hx d.message)]

/-- what the rule demands for the journal as written: range, code, residual map -/
def demandedFull (j : GCore.Journal) : List (Rng × String × List (Bytes × Rat)) :=
  (GCore.located j).filterMap fun (t, r) =>
    match verdict (GCore.txImage t) with
    | .ok => none
    | .multiple => some (r, "MULTIPLE_INFERRED", [])
    | .unbalanced d => some (r, "UNBALANCED", d)

def multipleText : Bytes := bs "transaction has multiple postings without amounts"

/-- does message `msg` under code `code` state the residual map `d`? -/
def messageOk (code : String) (msg : Bytes) (d : List (Bytes × Rat)) : Bool :=
  if code == "MULTIPLE_INFERRED" then msg == multipleText
  else match C02.parseMessage msg with
    | some l => C02.sortKV l == C02.sortKV d
    | none => false

/-- property C02's quantifier on one transaction of the core grammar -/
def txInDomain (t : GCore.Tx) : Bool :=
  GCore.amountless t ≥ 1 ||
    (match verdict (GCore.txImage t) with
     | .unbalanced d => d.length != 2
     | _ => true)

def gcore (j : Json) : Json :=
  let g := C03Core.gcJournalOf (jget j "g")
  let wf := GCore.WF g
  let text := GCore.print g
  let impl := jget j "impl"
  let implDiags := (jarr impl "diags").toList
  let implPub := (jarr impl "pub").toList
  -- the model chain on the printed text
  let tree := (HL.Pipeline.parseText Classes.go text).1
  let analysis := analyzeBalance tree
  let model := match analysis with
    | none => Json.mkObj [("text", hx text), ("diags", "panic"), ("pub", "panic")]
    | some ds => Json.mkObj [("text", hx text), ("diags", arrJ diagJ ds), ("pub", arrJ pubJ ds)]
  let want := demandedFull g
  -- the statement of C02_pipeline_core on this case
  let thm := !wf || (analysis.map (·.map fun d => (d.range, codeName d.code))) == some (want.map fun w => (w.1, w.2.1))
  let dom := wf && g.all txInDomain
  -- the oracle on the implementation's output
  let diagsOk := implDiags.length == want.length &&
    (implDiags.zip want).all fun (d, w) =>
      rngOf (jget d "r") == w.1 && jnat d "sev" == 0 && jstr d "code" == w.2.1 &&
      messageOk w.2.1 (jhex d "msg") w.2.2
  let pubOk := implPub.length == want.length &&
    (implPub.zip want).all fun (d, w) =>
      jnat d "line" == w.1.start.line && jnat d "sev" == 0 && jstr d "code" == w.2.1 &&
      messageOk w.2.1 (jhex d "msg") w.2.2
  let ok := jhex impl "text" == text && diagsOk && pubOk
  let why :=
    if jhex impl "text" != text then "the text the real code read is not GCore.print of the journal"
    else if !diagsOk then "balance diagnostics of Analyze(Parse(text)) differ from the exact-sum rule on the written values"
    else if !pubOk then "published balance diagnostics differ from the exact-sum rule on the written values"
    else ""
  if !thm then
    Json.mkObj [("error", "the compiled model disagrees with theorem C02_pipeline_core on a well-formed GCore journal")]
  else
  Json.mkObj [("model", model), ("spec_ok", !dom || ok), ("in_domain", dom), ("known", Json.arr #[]),
    ("why", why), ("nontrivial", dom && !want.isEmpty)]

def handle (op : String) (j : Json) : Option Json :=
  match op with
  | "c02.gcore" => some (gcore j)
  | _ => none

end HL.Driver.C02Core
