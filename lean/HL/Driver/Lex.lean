import HL.Driver.Util
import HL.Driver.AstJson
import HL.Model.Lexer
import HL.Spec.LexSpec
open Lean

/-! Correspondence ops of the lexer layer (served under property C06; shared by C03, C07, C08, C17):
    `lex.tokens`    whole token stream of an arbitrary byte string (type, value, Pos, End)
    `utf8.decode`   DecodeRuneInString / DecodeLastRuneInString on a byte string; with field
                    `r`: RuneLen and string(rune)
    `unicode.class` IsLetter / IsUpper / IsDigit / IsSpace on a list of code points
    `lex.trim`      strings.TrimSpace on arbitrary bytes -/
namespace HL.Driver.Lex
open HL HL.Lex

def tokens (j : Json) : Json :=
  let input := jhex j "s"
  let model := lexAll Classes.go input
  let implToks := (jarr j "impl").toList.map tokOf
  let v := HL.Spec.LexSpec.judge input implToks
  let panicked := (jarr j "impl").any fun t => jhas t "panic"
  Json.mkObj [("model", arrJ tokJ model), ("spec_ok", v.ok && !panicked), ("in_domain", true),
    ("known", Json.arr #[]), ("why", if panicked then "the lexer panicked: " ++ ((jarr j "impl").toList.map fun t => jstr t "panic").getLast! else v.why),
    ("nontrivial", !input.isEmpty)]

def decode (j : Json) : Json :=
  if jhas j "r" then
    let r := jnat j "r"
    let len : Int := match Utf8.runeLen r with | some n => n | none => -1
    Json.mkObj [("model", Json.mkObj [("len", toJson len), ("enc", hx (Utf8.encodeRune r))])]
  else
    let one (h : Json) : Json :=
      let s := unhx h
      let (r, w) := Utf8.decodeRune s
      let (lr, lw) := Utf8.decodeLastRune s
      natArr [r, w, lr, lw]
    Json.mkObj [("model", Json.arr ((jarr j "ss").map one))]

def classOf (r : Nat) : Nat :=
  (if Classes.go.isLetter r then 1 else 0) + (if Classes.go.isUpper r then 2 else 0) +
  (if Classes.go.isDigit r then 4 else 0) + (if isSpaceRune r then 8 else 0)

def uclass (j : Json) : Json :=
  let lo := jnat j "lo"
  let explicit := (jarr j "rs").toList.map asNat
  let rs := if jhas j "n" then (List.range (jnat j "n")).map (· + lo) else explicit
  Json.mkObj [("model", natArr (rs.map classOf))]

def trim (j : Json) : Json :=
  Json.mkObj [("model", hx (trimSpace (jhex j "s")))]

def handle (op : String) (j : Json) : Option Json :=
  match op with
  | "lex.tokens" => some (tokens j)
  | "utf8.decode" => some (decode j)
  | "unicode.class" => some (uclass j)
  | "lex.trim" => some (trim j)
  | _ => none

end HL.Driver.Lex
