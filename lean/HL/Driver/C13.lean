import HL.Driver.Util
import HL.Model.Srv
import HL.Spec.Converge
open Lean HL.Srv

namespace HL.Driver.C13

/-- Texts of the model: (document, text id) pairs packed into one number, because the diagnostics
    of a text may depend on the document's path (include resolution). -/
def pack (u t : Nat) : Nat := u * 100000 + t

abbrev S := St Nat String

def pcOf (s : S) (i : Nat) : Option (PC String) := (s.tasks i).map (·.pc)

/-- Driver state: the model's state and the task (if any) that was let go while `publishMu` was
    held and therefore sits in `publishMu.Lock()` (in the model: its `lock` step is not enabled). -/
structure D where
  s : S
  blocked : Option Nat := none

/-- lock, check, then either stop inside the client call ("pub") or unlock and return ("skip"). -/
def enter (diag : Nat → String) (g : Bool) (s : S) (v : Nat) : S × String :=
  match step? diag g s (.lock v) with
  | none => (s, "disabled")
  | some s1 =>
    match step? diag g s1 (.check v) with
    | none => (s1, "disabled")
    | some s2 =>
      match pcOf s2 v with
      | some (.checked _) => (s2, "pub")
      | _ => match step? diag g s2 (.unlock v) with
        | some s3 => (s3, "skip")
        | none => (s2, "disabled")

/-- `["go",v]` and `["run",v]`. -/
def start (diag : Nat → String) (g : Bool) (d : D) (v : Nat) : D × String :=
  match pcOf d.s v with
  | some (.ready _) =>
    if d.blocked.isSome then (d, "notask")
    else if g then
      if d.s.lock.isSome then ({ d with blocked := some v }, "blocked")
      else let (s1, o) := enter diag g d.s v; ({ d with s := s1 }, o)
    else (d, "pub")     -- pinned code: the task is inside the client call as soon as it is let go
  | _ => (d, "notask")

/-- `["rel",v]`: publish, unlock; a blocked task then gets the mutex. -/
def finish (diag : Nat → String) (g : Bool) (d : D) (v : Nat) : D × String :=
  if g then
    match pcOf d.s v with
    | some (.checked _) =>
      match step? diag g d.s (.publish v) with
      | none => (d, "disabled")
      | some s1 =>
        match step? diag g s1 (.unlock v) with
        | none => ({ d with s := s1 }, "disabled")
        | some s2 =>
          match d.blocked with
          | none => ({ d with s := s2 }, "ok")
          | some w => let (s3, o) := enter diag g s2 w; ({ s := s3, blocked := none }, "ok+" ++ o)
    | _ => (d, "notheld")
  else
    match step? diag g d.s (.publish v) with
    | none => (d, "notheld")
    | some s1 => ({ d with s := s1 }, "ok")

def spawned (diag : Nat → String) (g : Bool) (d : D) (s1 : S) : D × Json :=
  if s1.seq = d.s.seq then ({ d with s := s1 }, toJson (0 : Nat))
  else
    -- the harness waits until the new task has reached the yield point: it has analysed
    let v := s1.seq
    ({ d with s := (step? diag g s1 (.analyse v)).getD s1 }, toJson v)

def runEvent (diag : Nat → String) (g : Bool) (d : D) (e : Json) : D × Json :=
  match e with
  | .arr a =>
    let kind := asStr a[0]!
    let x := asNat a[1]!
    let y := asNat (a[2]?.getD (toJson (0 : Nat)))
    match kind with
    | "open" => spawned diag g d (step diag g d.s (.openDoc x (pack x y)))
    | "change" => spawned diag g d (step diag g d.s (.change x (pack x y)))
    | "close" => ({ d with s := step diag g d.s (.close x) }, toJson (0 : Nat))
    | "go" =>
      let (d1, o) := start diag g d x
      if o == "pub" then
        let (d2, f) := finish diag g d1 x
        (d2, toJson (if f == "ok" then "pub" else f))
      else (d1, toJson o)
    | "run" => let (d1, o) := start diag g d x; (d1, toJson o)
    | "rel" => let (d1, o) := finish diag g d x; (d1, toJson o)
    | _ => (d, toJson "?")
  | _ => (d, toJson "?")

def noteOf (e : Json) : Option HL.Spec.Converge.Note :=
  match e with
  | .arr a =>
    let x := asNat a[1]!
    let y := asNat (a[2]?.getD (toJson (0 : Nat)))
    match asStr a[0]! with
    | "open" => some (.openDoc x y)
    | "change" => some (.change x y)
    | "close" => some (.close x)
    | _ => none
  | _ => none

def logJson (us : List Nat) (log : Nat → List (Nat × String)) : Json :=
  Json.arr (us.toArray.map fun u =>
    Json.arr #[toJson u, Json.arr ((log u).toArray.map fun (v, k) => Json.arr #[toJson v, toJson k])])

def parseLog (j : Json) : List (Nat × List (Nat × String)) :=
  match j with
  | .arr a => a.toList.map fun e =>
    match e with
    | .arr p => (asNat p[0]!, match p[1]! with
        | .arr l => l.toList.map fun x => match x with
          | .arr q => (asNat q[0]!, asStr q[1]!)
          | _ => (0, "")
        | _ => [])
    | _ => (0, [])
  | _ => []

/-- op c13.sched: run the model of the repaired server (`guarded := true`; `"pinned":true` in the
    line selects the pinned variant, used only by hand) on the recorded schedule.
    model     = per-event outcomes, the client's log per URI, tasks left in flight;
    spec_ok   = (oracle, on the implementation's log) every document open at the end shows the
                diagnostics a fresh server gives for its final text (the version tags of the log
                are compared with the model's — correspondence — but not judged);
    in_domain = the schedule ran to quiescence in the implementation (nothing left, no time-out). -/
def sched (j : Json) : Json := Id.run do
  let evs := (jarr j "ev").toList
  let g := !(jbool j "pinned")
  let table : List (Nat × String) := (jarr j "expect").toList.map fun e =>
    match e with
    | .arr a => (pack (asNat a[0]!) (asNat a[1]!), asStr a[2]!)
    | _ => (0, "")
  let diag : Nat → String := fun t => ((table.find? (·.1 == t)).map (·.2)).getD "?"
  let mut d : D := { s := St.init }
  let mut out : Array Json := #[]
  let mut us : List Nat := []
  for e in evs do
    let (d1, o) := runEvent diag g d e
    d := d1
    out := out.push o
    match noteOf e with
    | some (.openDoc u _) | some (.change u _) | some (.close u) => if !us.contains u then us := u :: us
    | none => pure ()
  let usSorted := us.mergeSort
  let s := d.s
  let left := (List.range (s.seq + 1)).countP fun i => (s.tasks i).isSome
  let model := Json.mkObj [("out", Json.arr out), ("log", logJson usSorted s.log), ("left", toJson left)]
  -- oracle, on the implementation's output
  let impl := jget j "impl"
  let ilog := parseLog (jget impl "log")
  let ilogOf : Nat → List (Nat × String) := fun u => ((ilog.find? (·.1 == u)).map (·.2)).getD []
  let notes := evs.filterMap noteOf
  let conv := HL.Spec.Converge.converged notes (fun u t => diag (pack u t)) (fun u => (ilogOf u).map (·.2))
  let iout := jarr impl "out"
  let clean := jnat impl "left" == 0 && iout.all fun o =>
    match o with
    | .str x => x == "pub" || x == "skip" || x == "ok" || x == "blocked" || x == "ok+pub" || x == "ok+skip"
    | _ => true
  let why := if !conv then "a document open at the end does not show the diagnostics of its final text" else ""
  let ntasks := s.seq
  return Json.mkObj [("model", model), ("spec_ok", !clean || conv), ("in_domain", clean),
    ("known", Json.arr #[]), ("why", why), ("nontrivial", clean && ntasks ≥ 2)]

def handle (op : String) (j : Json) : Option Json :=
  match op with
  | "c13.sched" => some (sched j)
  | _ => none

end HL.Driver.C13
