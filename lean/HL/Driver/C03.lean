import HL.Driver.GJson
import HL.Model.Pipeline
open Lean
namespace HL.Driver.C03
open HL HL.Driver

/-- op c03.journal: a journal generated from grammar G with its ground truth, and the real
    parser's result.  model = `Pipeline.parseText` (lexer model + parser model) on the text;
    spec_ok = no syntax errors and the implementation's tree agrees with the ground truth. -/
def journal (j : Json) : Json :=
  let truth := gJournalOf (jget j "truth")
  let impl := jget j "impl"
  let tree := journalOf (jget impl "journal")
  let errs := arrOf perrOf (jget impl "errors")
  let ok := errs.isEmpty && G.agrees truth tree
  let why := if !errs.isEmpty then
      s!"syntax error on a journal from grammar G: {String.fromUTF8! (ByteArray.mk (errs.head!.msg.toArray))} at line {errs.head!.pos.line}"
    else G.firstDisagreement truth tree
  let known := G.knownShapes truth
  -- end-to-end correspondence: lexer model composed with parser model on the same text
  let (mj, merrs) := HL.Pipeline.parseText Classes.go (jhex j "text")
  let model := Json.mkObj [("journal", journalJ mj), ("errors", arrJ perrJ merrs)]
  Json.mkObj [("model", model), ("spec_ok", ok), ("in_domain", true), ("known", Json.arr (known.toArray.map Json.str)),
    ("why", why), ("nontrivial", true)]

def handle (op : String) (j : Json) : Option Json :=
  match op with
  | "c03.journal" => some (journal j)
  | _ => none

end HL.Driver.C03
