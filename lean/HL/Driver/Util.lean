import Lean.Data.Json
open Lean

namespace HL.Driver

def jstr (j : Json) (k : String) : String := (j.getObjValAs? String k).toOption.getD ""
def jnat (j : Json) (k : String) : Nat := (j.getObjValAs? Nat k).toOption.getD 0
def jint (j : Json) (k : String) : Int := (j.getObjValAs? Int k).toOption.getD 0
def jbool (j : Json) (k : String) : Bool := (j.getObjValAs? Bool k).toOption.getD false
def jarr (j : Json) (k : String) : Array Json :=
  match j.getObjVal? k with
  | .ok (.arr a) => a
  | _ => #[]
def jget (j : Json) (k : String) : Json := (j.getObjVal? k).toOption.getD .null
def jhas (j : Json) (k : String) : Bool := match j.getObjVal? k with | .ok .null => false | .ok _ => true | _ => false

def asNat (j : Json) : Nat := (fromJson? (α := Nat) j).toOption.getD 0
def asStr (j : Json) : String := (fromJson? (α := String) j).toOption.getD ""

def hexVal (c : Char) : Nat :=
  if '0' ≤ c ∧ c ≤ '9' then c.toNat - 48
  else if 'a' ≤ c ∧ c ≤ 'f' then c.toNat - 87
  else if 'A' ≤ c ∧ c ≤ 'F' then c.toNat - 55 else 0

def unhex (s : String) : List UInt8 :=
  let rec go : List Char → List UInt8
    | a :: b :: r => (UInt8.ofNat (hexVal a * 16 + hexVal b)) :: go r
    | _ => []
  go s.toList

def hexDigit (n : Nat) : Char := if n < 10 then Char.ofNat (48 + n) else Char.ofNat (87 + n)
def hex (bs : List UInt8) : String :=
  String.ofList (bs.flatMap fun b => [hexDigit (b.toNat / 16), hexDigit (b.toNat % 16)])

def natArr (l : List Nat) : Json := Json.arr (l.toArray.map fun n => toJson n)

end HL.Driver
