import HL.Driver.Util
import HL.Driver.AstJson
import HL.Model.Refs
import HL.Spec.Occurrences
open Lean HL HL.Ast HL.Refs

/-! Driver ops `c09.refs` and `c09.rename`: one line is a whole session (workspace files, how
    each is open, the resolved journals the real server holds, a batch of requests). -/
namespace HL.Driver.C09
open HL.Driver HL.Spec.Occ

def lposOf (j : Json) : LPos := match j with
  | .arr a => ⟨asNat a[0]!, asNat a[1]!⟩
  | _ => default

def lrangeJ (r : LRange) : Json := natArr [r.start.line, r.start.char, r.stop.line, r.stop.char]
def locJ (l : Loc) : Json := Json.arr #[Json.str l.path, toJson l.range.start.line, toJson l.range.start.char,
  toJson l.range.stop.line, toJson l.range.stop.char]

def locKeyLt (a b : Loc) : Bool :=
  if a.path != b.path then a.path < b.path
  else if a.range.start.line != b.range.start.line then a.range.start.line < b.range.start.line
  else if a.range.start.char != b.range.start.char then a.range.start.char < b.range.start.char
  else if a.range.stop.line != b.range.stop.line then a.range.stop.line < b.range.stop.line
  else a.range.stop.char < b.range.stop.char

def sortLocs (l : List Loc) : List Loc := (l.toArray.qsort locKeyLt).toList

def locOfJ (j : Json) : Loc := match j with
  | .arr a => ⟨asStr a[0]!, ⟨⟨asNat a[1]!, asNat a[2]!⟩, ⟨asNat a[3]!, asNat a[4]!⟩⟩⟩
  | _ => default

/-- A generator span with the harness's annotations (where it was written, flags). -/
structure SpanM where
  sp : Span
  site : String
  flags : Nat
deriving Inhabited

/-- Decoded session. -/
structure FileJ where
  path : Path
  how : String
  tree : Nat
  diskTree : Nat
  perrs : Nat
  spans : List SpanM
  text : Bytes
  lns : Lines      -- the lines of `text` (what the client sees: the buffer of an open file, else the disk)
  diskLns : Lines  -- the lines of the file on disk

structure Sess where
  mode : String
  trees : Array Journal
  files : List FileJ
  root : Path
  resolveds : Array (Option Resolved × Path × Bool)   -- resolved journal, primary path, workspace view?

def spanOf (j : Json) : SpanM := match j with
  | .arr a => ⟨⟨(match asNat a[0]! with | 0 => Kind.account | 1 => Kind.commodity | _ => Kind.payee),
      unhx a[1]!, ⟨⟨asNat a[2]!, asNat a[3]!⟩, ⟨asNat a[2]!, asNat a[4]!⟩⟩, asNat a[5]! != 0⟩,
      asStr a[6]!, asNat a[7]!⟩
  | _ => default

def decodeText (b : Bytes) : List Char := ((String.fromUTF8? (ByteArray.mk b.toArray)).getD "").toList

def decodeSess (j : Json) : Sess :=
  let trees := (jarr j "trees").map journalOf
  let tr (i : Nat) : Journal := trees[i]?.getD default
  let files := (jarr j "files").toList.map fun f =>
    let buf := jget f "buf"
    let text := if buf.isNull then jhex f "disk" else unhx buf
    { path := jstr f "path", how := jstr f "how", tree := jnat f "tree", diskTree := jnat f "diskTree",
      perrs := jnat f "perrs", spans := (jarr f "spans").toList.map spanOf,
      text := text, lns := HL.Text.lines (decodeText text),
      diskLns := HL.Text.lines (decodeText (jhex f "disk")) : FileJ }
  let resOf := fun (r : Json) => (if r.isNull then none else
      some { primary := if (jget r "primary").isNull then none else some (tr (jnat r "primary")),
             files := (jarr r "files").toList.map (fun kv => match kv with
               | .arr a => (asStr a[0]!, tr (asNat a[1]!))
               | _ => ("", default)),
             order := (jarr r "order").toList.map asStr } : Option Resolved)
  -- per requesting file: the workspace's journal with its root path, the journal stored for the
  -- document's URI; the MODEL chooses (`resolvedWithPrimaryPath`), and with the journal the texts
  -- positions are converted with (workspace view: the buffers of the open files)
  let resolveds := (jarr j "resolveds").map fun e =>
    let wsv : Option (Resolved × Path) := (resOf (jget e "ws")).map fun r => (r, jstr e "wsroot")
    let c := resolvedWithPrimaryPath wsv (resOf (jget e "own")) (jstr e "cur")
    let usedWs := match wsv with
      | some (r, root) => wsContains r root (jstr e "cur")
      | none => false
    (c.1, c.2, usedWs)
  { mode := jstr j "mode", trees := trees, files := files, root := jstr j "root", resolveds := resolveds }

/-- The request was answered from the journal resolved for the document itself (no workspace,
    or a document outside the root's tree): the label of the primary journal is its own path. -/
def usedOwn (j : Json) (ri : Nat) : Bool :=
  match (jarr j "resolveds")[ri]? with
  | none => true
  | some e =>
    let ws := jget e "ws"
    if ws.isNull then true else
    let files := (jarr ws "files").toList.map (fun kv => match kv with
      | .arr a => (asStr a[0]!, (default : Journal))
      | _ => ("", default))
    !wsContains ⟨none, files, []⟩ (jstr e "wsroot") (jstr e "cur")

/-- Tree-index view of the resolved journal the request read (for coherence checks):
    path ↦ tree index. -/
def resolvedIdx (j : Json) (ri : Nat) : Option (List (Path × Nat)) :=
  match (jarr j "resolveds")[ri]? with
  | none => none
  | some e =>
    let own := usedOwn j ri
    let r := if own then jget e "own" else jget e "ws"
    if r.isNull then none else
    let fs := (jarr r "files").toList.map (fun kv => match kv with
      | .arr a => (asStr a[0]!, asNat a[1]!)
      | _ => ("", 0))
    let pp := if own then jstr e "cur" else jstr e "wsroot"
    let fs := if (jget r "primary").isNull || pp == "" then fs
      else (pp, jnat r "primary") :: fs.filter (·.1 != pp)
    some fs

structure ReqJ where
  cur : Path
  pos : LPos
  incl : Bool
  newName : Bytes
  res : Nat
  cj : Nat
  scope : List Path

def reqOf (j : Json) : ReqJ :=
  { cur := jstr j "cur", pos := lposOf (jget j "pos"), incl := jbool j "incl", newName := jhex j "new",
    res := jnat j "res", cj := jnat j "cj", scope := (jarr j "scope").toList.map asStr }

def fileOf (s : Sess) (p : Path) : Option FileJ := s.files.find? (·.path == p)

/-- The `fileMappers` of `resolvedWithPrimaryPath`: with the workspace view the buffer of every
    open file, otherwise the buffer of the requesting document only; every other file as read
    from disk (no lines for an unknown path). -/
def textsOfSess (s : Sess) (q : ReqJ) : Texts := fun p =>
  let wsView := (s.resolveds[q.res]?.map (·.2.2)).getD false
  match fileOf s p with
  | some f => if wsView || p == q.cur then f.lns else f.diskLns
  | none => []

def mkRequest (s : Sess) (q : ReqJ) : Request :=
  let (res, pp, _) := s.resolveds[q.res]?.getD (none, q.cur, false)
  { curJournal := s.trees[q.cj]?.getD default, resolved := res, primaryPath := pp, pos := q.pos,
    curLines := textsOfSess s q q.cur, texts := textsOfSess s q }

/-! ### The oracle -/

/-- The ground truth of a request, from the generator's spans. -/
def truthTarget (s : Sess) (q : ReqJ) : Option Span :=
  match fileOf s q.cur with
  | none => none
  | some f => (f.spans.find? (·.sp.has q.pos)).map (·.sp)

def truthFiles (s : Sess) (q : ReqJ) : List (Path × List Span) :=
  q.scope.filterMap fun p => (fileOf s p).map fun f => (p, f.spans.map (·.sp))

/-- What the syntax trees the server holds say (tree nodes instead of generator spans). -/
def viewFiles (s : Sess) (q : ReqJ) (view : List (Path × Nat)) : List (Path × List Span) :=
  view.map fun (p, i) => (p, treeNodes (textsOfSess s q p) (s.trees[i]?.getD default))

def sameLocs (a b : List Loc) : Bool := sortLocs a == sortLocs b

/-- Equality as sets: `sortAndDedup` merges equal locations, and the nodes of a tree that is
    converted with a text it was not parsed from (the stale-snapshot findings) can collide. -/
def sameLocSet (a b : List Loc) : Bool := sortLocs a.eraseDups == sortLocs b.eraseDups

def hasFlag (sp : SpanM) (f : Nat) : Bool := (sp.flags / f) % 2 == 1

/-- Why a generator span and the tree node at the same ordinal differ. -/
def reasonOfSpan (sp : SpanM) : Option String :=
  if sp.site == "D" || sp.site == "format" then some "unranged-commodity-site"
  else none

def spanLt (a b : Span) : Bool :=
  if a.range.start.line != b.range.start.line then a.range.start.line < b.range.start.line
  else a.range.start.char < b.range.start.char

/-- Explain the differences between the spans of one file and the nodes of its tree, for one
    symbol: returns the reasons, or `none` when some difference has no known reason. -/
def explainFile (spans : List SpanM) (nodes : List Span) (kind : Kind) (name : Bytes) : Option (List String) :=
  let sp := ((spans.filter fun x => x.sp.kind == kind && x.sp.name == name).toArray.qsort (fun a b => spanLt a.sp b.sp)).toList
  let nd := ((nodes.filter fun x => x.kind == kind && x.name == name).toArray.qsort spanLt).toList
  -- occurrences the tree cannot carry
  let unr := sp.filter fun x => x.site == "D" || x.site == "format"
  let sp := sp.filter fun x => !(x.site == "D" || x.site == "format")
  let rs0 := if unr.isEmpty then [] else ["unranged-commodity-site"]
  if sp.length != nd.length then
    -- a name can differ when the tree mis-read the lexeme: unexplained
    none
  else
    (sp.zip nd).foldl (fun acc (a, b) =>
      match acc with
      | none => none
      | some rs =>
        if a.sp.range == b.range && a.sp.decl == b.decl then some rs
        else if a.sp.decl != b.decl then none
        else match reasonOfSpan a with
          | some r => some (if rs.contains r then rs else r :: rs)
          | none => none) (some rs0)

/-- Coherence of the resolved view with the truth for one file: `none` = coherent.  `own`: the
    request was answered from the journal resolved for the document itself. -/
def staleReason (own : Bool) (q : ReqJ) (view : List (Path × Nat)) (f : FileJ) : Option String :=
  match view.find? (·.1 == f.path) with
  | none =>
    if own && f.path != q.cur then some "loader-cache-drops-subtree" else some "?"
  | some (_, i) =>
    if i == f.tree then none
    else if i == f.diskTree then
      if own && f.path != q.cur && (f.how == "open-diff" || f.how == "changed" || f.how == "changed-ranged" || f.how == "changed-neutral") then
        some "unsaved-include-not-seen"
      else some "?"
    else some "?"

structure Verdict where
  ok : Bool
  inDomain : Bool
  known : List String
  why : String

/-- Judge one answer (a set of locations) of the implementation. -/
def judge (s : Sess) (j : Json) (q : ReqJ) (incl : Bool) (implLocs : List Loc) (implNone : Bool := false) : Verdict :=
  let scopeFiles := q.scope.filterMap (fileOf s)
  -- the cursor must be a position of the text (hypothesis `cursorOK` of the theorems)
  let curOk := match fileOf s q.cur with | some f => f.perrs == 0 && cursorOKB f.lns q.pos | none => false
  let inDomain := curOk && scopeFiles.all (·.perrs == 0)
  if !inDomain then ⟨true, false, [], ""⟩ else
  let tt := truthTarget s q
  let truth : List Loc := match tt with
    | none => []
    | some sp => occurrences (truthFiles s q) sp.kind sp.name incl
  let _ := implNone
  if sameLocs implLocs truth then ⟨true, true, [], ""⟩ else
  -- not what the property demands: is it one of the known findings?
  let view := (resolvedIdx j q.res).getD [(q.cur, q.cj)]
  let cjNodes := treeNodes (textsOfSess s q q.cur) (s.trees[q.cj]?.getD default)
  let nt := spanAt cjNodes q.pos
  let excused : List Loc := match nt with
    | none => []
    | some sp => occurrences (viewFiles s q view) sp.kind sp.name incl
  if !sameLocSet implLocs excused then
    ⟨false, true, [], s!"locations differ from the occurrences (truth {truth.length}, answer {implLocs.length}) and from what the held trees explain"⟩
  else
    -- every difference between `truth` and `excused` must have a known reason
    let curSpans := (fileOf s q.cur).map (·.spans) |>.getD []
    let targetReasons : Option (List String) :=
      let same := match tt, nt with
        | none, none => true
        | some a, some b => a.kind == b.kind && a.name == b.name && a.range == b.range
        | _, _ => false
      if same then some [] else
        -- the spans on the cursor's line explain a different target
        let onLine := curSpans.filter fun x => x.sp.range.start.line == q.pos.line
        let rs := onLine.filterMap reasonOfSpan
        if rs.isEmpty then none else some rs.eraseDups
    let sym : Option (Kind × Bytes) := match tt with
      | some sp => some (sp.kind, sp.name)
      | none => nt.map fun sp => (sp.kind, sp.name)
    let fileReasons : Option (List String) := match sym with
      | none => some []
      | some (k, n) =>
        scopeFiles.foldl (fun acc f => match acc with
          | none => none
          | some rs =>
            match staleReason (usedOwn j q.res) q view f with
            | some "?" => none
            | some r =>
              -- a stale or missing tree only matters when the symbol occurs in either version
              some (if rs.contains r then rs else r :: rs)
            | none =>
              match explainFile f.spans (treeNodes f.lns (s.trees[f.tree]?.getD default)) k n with
              | none => none
              | some r2 => some (r2.foldl (fun a r => if a.contains r then a else r :: a) rs)) (some [])
    let extra := view.filter fun (p, _) => !q.scope.contains p
    match targetReasons, fileReasons with
    | some a, some b =>
      let rs := (a ++ b).eraseDups
      if rs.isEmpty || !extra.isEmpty then
        ⟨false, true, [], "answer differs from the occurrences although trees and spans agree"⟩
      else ⟨false, true, rs, "known: " ++ ", ".intercalate rs⟩
    | _, _ => ⟨false, true, [], "answer differs from the occurrences for a reason that is not a known finding"⟩

/-- Judge the answer of prepareRename. -/
def judgePrep (s : Sess) (q : ReqJ) (impl : Option LRange) : Verdict :=
  let curOk := match fileOf s q.cur with | some f => f.perrs == 0 && cursorOKB f.lns q.pos | none => false
  if !curOk then ⟨true, false, [], ""⟩ else
  let tt := truthTarget s q
  if impl == tt.map (·.range) then ⟨true, true, [], ""⟩ else
  let nt := spanAt (treeNodes (textsOfSess s q q.cur) (s.trees[q.cj]?.getD default)) q.pos
  if impl != nt.map (·.range) then ⟨false, true, [], "prepareRename range is not the lexeme under the cursor"⟩ else
  let curSpans := (fileOf s q.cur).map (·.spans) |>.getD []
  let rs := ((curSpans.filter fun x => x.sp.range.start.line == q.pos.line).filterMap reasonOfSpan).eraseDups
  if rs.isEmpty then ⟨false, true, [], "prepareRename range is not the lexeme under the cursor"⟩
  else ⟨false, true, rs, "known: " ++ ", ".intercalate rs⟩

/-! Text-level check of a rename: substitute the generator's spans in the original text. -/
def u16w (c : Char) : Nat := if c.toNat ≥ 0x10000 then 2 else 1
def idxOfU16 : List Char → Nat → Nat
  | [], _ => 0
  | c :: cs, n => if n = 0 then 0 else 1 + idxOfU16 cs (n - u16w c)

def encodeText (l : List Char) : Bytes := (String.ofList l).toUTF8.toList

def splitOn (l : List Char) : List (List Char) :=
  let rec go : List Char → List Char → List (List Char)
    | [], cur => [cur.reverse]
    | c :: cs, cur => if c == '\n' then cur.reverse :: go cs [] else go cs (c :: cur)
  go l []

def substText (text : Bytes) (spans : List Span) (new : Bytes) : Bytes :=
  let lines := splitOn (decodeText text)
  let newC := decodeText new
  let out := lines.zipIdx.map fun (ln, i) =>
    let sp := ((spans.filter fun x => x.range.start.line == i).toArray.qsort spanLt).toList
    let pairs := sp.map fun x => (idxOfU16 ln x.range.start.char, idxOfU16 ln x.range.stop.char)
    substSpans ln 0 pairs newC
  encodeText (List.intercalate ['\n'] out)

/-- After a rename whose edits are exactly the occurrences: every touched file's new text is the
    old text with the lexemes replaced, it parses without errors and to the original structure
    with the name substituted; untouched files hold no occurrence. -/
def judgeAfter (s : Sess) (q : ReqJ) (sp : Span) (after : Json) : Verdict :=
  let aft := match after with | .arr a => a.toList | _ => []
  let bad := q.scope.filterMap fun p =>
    match fileOf s p with
    | none => some s!"{p}: unknown file"
    | some f =>
      let occ := (f.spans.map (·.sp)).filter fun x => x.isSym sp.kind sp.name true
      match aft.find? (fun a => jstr a "path" == p) with
      | none => if occ.isEmpty then none else some s!"{p}: occurrences but no edits"
      | some a =>
        if !(jbool a "ok") then some s!"{p}: overlapping edits"
        else if jhex a "text" != substText f.text occ q.newName then some s!"{p}: text after the rename is not the text with the lexemes replaced"
        else if jnat a "perrs" != 0 then some s!"{p}: renamed text no longer parses"
        else if !sameStructure sp.kind sp.name q.newName (s.trees[f.tree]?.getD default) (s.trees[jnat a "tree"]?.getD default) then
          some s!"{p}: renamed text does not parse to the original structure with the name substituted"
        else none
  match bad.head? with
  | none => ⟨true, true, [], ""⟩
  | some w => ⟨false, true, [], w⟩

def combine (vs : List Verdict) : Json :=
  let bad := vs.filter fun v => !v.ok
  let unexcused := bad.filter fun v => v.known.isEmpty
  let known := if unexcused.isEmpty then (bad.flatMap (·.known)).eraseDups else []
  let why := match unexcused.head? with
    | some v => v.why
    | none => match bad.head? with | some v => v.why | none => ""
  Json.mkObj [("spec_ok", bad.isEmpty), ("in_domain", vs.any (·.inDomain)),
    ("known", Json.arr (known.toArray.map Json.str)), ("why", why),
    ("nontrivial", vs.any (·.inDomain))]

def refs (j : Json) : Json :=
  let s := decodeSess j
  let reqs := (jarr j "reqs").toList.map reqOf
  let impl := (jarr j "impl").toList
  let model := reqs.map fun q => Json.arr ((sortLocs (references (mkRequest s q) q.incl)).toArray.map locJ)
  let vs := ((reqs.zip impl).zipIdx).map fun ((q, im), qi) =>
    let v := judge s j q q.incl ((match im with | .arr a => a.toList | _ => []).map locOfJ)
    { v with why := s!"req {qi}: {v.why}" }
  (combine vs).setObjVal! "model" (Json.arr model.toArray)

def editJ (p : Path) (e : TextEdit) : Json :=
  Json.arr #[Json.str p, toJson e.range.start.line, toJson e.range.start.char,
    toJson e.range.stop.line, toJson e.range.stop.char, hx e.newText]

def renameOp (j : Json) : Json :=
  let s := decodeSess j
  let reqs := (jarr j "reqs").toList.map reqOf
  let impl := (jarr j "impl").toList
  let after := (jarr j "after").toList
  let model := reqs.map fun q =>
    let rq := mkRequest s q
    let prep := match prepareRename rq with | some r => lrangeJ r | none => Json.null
    let edits := match rename rq q.newName with
      | none => Json.null
      | some ch =>
        let flat := ch.flatMap fun (p, es) => es.map fun e => (p, e)
        let sorted := (flat.toArray.qsort fun a b => locKeyLt ⟨a.1, a.2.range⟩ ⟨b.1, b.2.range⟩).toList
        Json.arr (sorted.toArray.map fun (p, e) => editJ p e)
    Json.mkObj [("prep", prep), ("edits", edits)]
  let vs := (((reqs.zip impl).zip after).zipIdx).flatMap fun (((q, im), aft), qi) =>
    let prepJ := jget im "prep"
    let prep : Option LRange := match prepJ with
      | .arr a => some ⟨⟨asNat a[0]!, asNat a[1]!⟩, ⟨asNat a[2]!, asNat a[3]!⟩⟩
      | _ => none
    let editsJ := match jget im "edits" with | .arr a => a.toList | _ => []
    let locs := editsJ.map locOfJ
    let texts := editsJ.map fun e => match e with | .arr a => unhx a[5]! | _ => []
    let v1 := judgePrep s q prep
    let v2 := judge s j q true locs
    let v2 := if v2.ok && !(texts.all (· == q.newName)) then ⟨false, true, [], "an edit carries a text other than the new name"⟩ else v2
    let v3 := match v2.ok && v2.inDomain, truthTarget s q with
      | true, some sp => [judgeAfter s q sp aft]
      | _, _ => []
    ([v1, v2] ++ v3).map fun v => { v with why := s!"req {qi}: {v.why}" }
  (combine vs).setObjVal! "model" (Json.arr model.toArray)

def handle (op : String) (j : Json) : Option Json :=
  match op with
  | "c09.refs" => some (refs j)
  | "c09.rename" => some (renameOp j)
  | _ => none

end HL.Driver.C09
