import HL.Driver.Util
open Lean
namespace HL.Driver.C06H
open HL.Driver

/-- op c06.request: every feature request on one document, run against the real server in an
    isolated process.  The model's answer is constant: the totality theorems of HL.Props.C06*
    say the modelled lexer, parser and helpers never panic and always terminate. -/
def request (j : Json) : Json :=
  let impl := jget j "impl"
  let bad := jbool impl "panic" || jbool impl "timeout"
  let detail := jget j "detail"
  let why := if jbool impl "panic" then
      s!"request panicked: {(jarr detail "panics").toList.map asStr |>.head?.getD ""}"
    else if jbool impl "timeout" then
      s!"request exceeded its deadline: {(jarr detail "timeouts").toList.map asStr}"
    else ""
  Json.mkObj [("model", Json.mkObj [("panic", false), ("timeout", false)]), ("spec_ok", !bad),
    ("in_domain", true), ("known", Json.arr #[]), ("why", why), ("nontrivial", decide (jnat j "len" > 0))]

def handle (op : String) (j : Json) : Option Json :=
  match op with
  | "c06.request" => some (request j)
  | _ => none
end HL.Driver.C06H
