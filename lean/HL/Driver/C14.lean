import HL.Driver.Util
import HL.Generated.AccessExpect
open Lean HL.Lockset HL.Generated.Access HL.Generated.AccessExpect

namespace HL.Driver.C14

/-- What the model says about any schedule: the transition system of every pool that conforms
    to a disciplined table is race free (`HL.Props.C14.server_race_free`), every pool that
    respects an acyclic lock order is deadlock free (`server_deadlock_free`); handlers are total
    (no panic).  The verdict is recomputed here from the REGENERATED table, so a race the
    detector reports on a table this function calls disciplined is a correspondence break
    (the translator missed an access or a lock region). -/
def modelVerdict : Json :=
  Json.mkObj [("race", !(disciplined accessTable)),
              ("deadlock", !(acyclicBy lockRank lockOrder)),
              ("panic", false)]

/-- op c14.run: one schedule executed by the race-instrumented harness.
    impl   = {race, deadlock, panic} observed;
    diffs  = responses that differ from the sequential replay, each with the facts of the guard;
    spec_ok = nothing observed and no difference;
    known  = [] — no difference is excused: `HL.Props.C14.response_is_function_of_state` holds
    without a guard since repo_patches/fix-resolved-pending.diff (the former finding
    `resolved-pending`), so a response that differs from the reference is a violation. -/
def run (j : Json) : Json :=
  let impl := jget j "impl"
  let bad := jbool impl "race" || jbool impl "deadlock" || jbool impl "panic"
  let diffs := jarr j "diffs"
  let specOk := !bad && diffs.isEmpty
  let known : Array Json := #[]
  let why :=
    if jbool impl "race" then s!"data race reported by the race detector: {(jget j "pair").compress}"
    else if jbool impl "deadlock" then "handler or background goroutine stuck (goroutine dump in report)"
    else if jbool impl "panic" then "panic"
    else if !diffs.isEmpty && jstr diffs[0]! "k" == "diag" then
      let d := diffs[0]!
      s!"the include-level diagnostics last published for document {(jget d "d").compress} are not those of its own include tree (sequential replay): got {(jget d "got").compress}, want {(jget d "want").compress}"
    else if !diffs.isEmpty then
      let d := diffs[0]!
      s!"response {jstr d "k"} at op {(jget d "i").compress} differs from the reference (sequential replay with diagnostics on) (ws={jbool d "ws"}, include={jbool d "inc"}, inflight={jnat d "inflight"}, diagoff={jbool d "diagoff"}, no tree stored when the request arrived={jbool d "window"})"
    else ""
  Json.mkObj [("model", modelVerdict), ("spec_ok", specOk), ("in_domain", true),
    ("known", Json.arr known), ("why", why)]

def handle (op : String) (j : Json) : Option Json :=
  match op with
  | "c14.run" => some (run j)
  | _ => none

end HL.Driver.C14
