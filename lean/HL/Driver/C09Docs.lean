import HL.Driver.Util
import HL.Driver.C12
import HL.Model.WsDocs
import HL.Spec.Rebuild
open Lean HL.Index HL.Workspace HL.WsDocs

/-!
  Driver op `c09.docs`: the real Server in workspace mode, driven by didOpen / didChange /
  didSave / didClose notifications (harness/c09docs.go), against the model HL/Model/WsDocs.lean.

    cfg, limit   which workspace repairs the code under test contains (as in c12.run)
    files        the directory: [{n, t, c}] (name, text, contribution computed by the real parser)
    events       [{k: "open"|"change"|"save"|"close", n, t, c}]
    impl         {root, init: view, steps: [{view, order}]} of Server.Workspace() after each event

  model   = the same from `dstep {}` (every handler repair on);
  spec_ok = after every event the IMPLEMENTATION's workspace view is the view of a workspace
            rebuilt on what the client sees (buffers over disk) — judged by HL.Spec.Rebuild.viewOk,
            the judgement of C12, applied to the client's view instead of the disk.
  in_domain = the hypotheses of HL.Props.C09.workspace_follows_buffers (files of the view that
            keep their include lists), widened for the oracle by *settled* include changes (see
            `settled`: an include line cut and pasted back while the files it brings in have no
            unsaved edits) — the judgement is the property's own rebuild rule either way.
-/
namespace HL.Driver.C09Docs
open HL.Driver HL.Driver.C12 HL.Spec.Rebuild

structure EvJ where
  kind : String
  name : String
  c : Contrib

def evOf (j : Json) : EvJ := { kind := jstr j "k", name := jstr j "n", c := parseContrib (jget j "c") }

def toEv (e : EvJ) : Ev :=
  match e.kind with
  | "open" => .openDoc e.name e.c
  | "change" => .change e.name e.c
  | "close" => .close e.name
  | _ => .save e.name

/-- An event that changes the include list of `name` is still judged when the change is
    *settled*: every other file reachable from `name` in the client's view after the event is
    seen by the client exactly as it is on disk (no unsaved buffer), so that files entering the
    tree are the same whether read from disk (as the workspace does) or from the client's view
    (as the rebuild does).  Files leaving the tree need no condition. -/
def settled (after : FS) (bufs : AList Contrib) (disk : FS) (name : String) : Bool :=
  (reach after name).all fun f =>
    f == name || match bufs.get f with
      | none => true
      | some b => disk.get f == some b

def docs (j : Json) : Json := Id.run do
  let cfg := parseCfg j
  let files := parseFiles j "files"
  let evs := (jarr j "events").toList.map evOf
  let impl := jget j "impl"
  let implSteps := (jarr impl "steps").toList
  -- model
  let s0 := dstart cfg files
  let (v0, w0) := observe s0.w
  let mut s : DS := { s0 with w := w0 }
  let mut stepsJ : Array Json := #[]
  -- the client's view, kept by the oracle on its own: buffers over disk
  let mut bufs : AList Contrib := []
  let mut disk : FS := files
  let mut calm := true
  let mut why : List String := []
  let root := jstr impl "root"
  let mut i := 0
  for e in evs do
    let clientView : FS := bufs.foldl (fun fs b => fs.set b.1 b.2) disk
    -- domain: an existing file of the view, include list kept
    match e.kind with
    | "save" => pure ()
    | "close" =>
      match disk.get e.name, clientView.get e.name with
      | some c, some c0 =>
        if e.name == "" || !contribOk c then
          calm := false
        else if resolveIncl e.name c.incs != resolveIncl e.name c0.incs then
          if !settled (clientView.set e.name c) bufs disk e.name then calm := false
      | _, _ => calm := false
    | _ =>
      match clientView.get e.name with
      | some c0 =>
        if e.name == "" || !contribOk e.c then
          calm := false
        else if resolveIncl e.name e.c.incs != resolveIncl e.name c0.incs then
          if !settled (clientView.set e.name e.c) bufs disk e.name then calm := false
      | none => calm := false
    s := dstep {} cfg s (toEv e)
    let (v, w') := observe s.w
    stepsJ := stepsJ.push (Json.mkObj [("view", viewJson v), ("order", jstrs s.w.order)])
    s := { s with w := w' }
    -- the oracle's own bookkeeping
    match e.kind with
    | "open" => bufs := bufs.set e.name e.c
    | "change" => if (bufs.get e.name).isSome then bufs := bufs.set e.name e.c
    | "close" => bufs := bufs.erase e.name
    | _ =>
      match bufs.get e.name with
      | some c => disk := disk.set e.name c
      | none => pure ()
    let clientView' : FS := bufs.foldl (fun fs b => fs.set b.1 b.2) disk
    match implSteps[i]? with
    | some is =>
      if calm then
        let F := failures (rebuildAt cfg.limit root clientView') (parseView (jget is "view"))
        if !F.isEmpty then
          why := why ++ [s!"event {i} ({e.kind} {e.name}): the workspace differs from a rebuild on the client's view in {F}"]
    | none => pure ()
    i := i + 1
  let model := Json.mkObj [("root", Json.str s0.w.root), ("init", viewJson v0),
    ("steps", Json.arr stepsJ)]
  let domain := fsOk files && calm && root == rootOf files
  return Json.mkObj [("model", model), ("spec_ok", why.isEmpty), ("in_domain", domain),
    ("known", Json.arr #[]), ("why", String.intercalate "; " why)]

def handle (op : String) (j : Json) : Option Json :=
  match op with
  | "c09.docs" => some (docs j)
  | _ => none

end HL.Driver.C09Docs
