import HL.Driver.Util
import HL.Driver.AstJson
import HL.Model.Hover
import HL.Spec.HoverSpec
open Lean HL HL.Ast

/-!
  Driver op `c20.hover` (property C20, server-level part).

  One line = one requesting file of one scenario:
    gt     ground truth of the scenario: files (path, transactions as written), include graph,
           `ws` (workspace mode) and `root`
    req    index of the requesting file
    docj   parser.Parse of the requesting document (real parser)
    doct   the requesting document's text (positions are converted with its lines)
    wsres  the workspace's resolved journal as the real server holds it (null if none)
    wsroot the workspace's root journal path (with wsres)
    dpath  the requesting document's path
    res    the per-URI resolved journal stored by publishDiagnostics (null if none)
    bufs   [path, tree] of the open documents that `res` lists: the trees of their buffers
    qs     queries: cursor + what the generator wrote at that position (`exp`, null = nothing)
    impl   {figs: per query the figures parsed back from the real Hover's markdown (null = no
           hover), wf: true}

  model   = the model's figures per query (compared with `impl`);
  spec_ok = every in-domain query shows the statement's aggregates over root + members once.
-/
namespace HL.Driver.C20Hover
open HL.Hover HL.HoverSpec HL.Driver

/-! ### model side -/

def resolvedOf (j : Json) : Option Resolved :=
  match j with
  | .null => none
  | j => some {
      primary := optOf journalOf (jget j "primary")
      files := arrOf (fun e => match e with
        | .arr a => (bs (asStr a[0]!), journalOf a[1]!)
        | _ => ([], default)) (jget j "files")
      order := arrOf (fun e => bs (asStr e)) (jget j "order") }

def bstr (b : Bytes) : Json := Json.str (String.fromUTF8! (ByteArray.mk b.toArray))

def rangeJ (r : Nat × Nat × Nat × Nat) : Json := natArr [r.1, r.2.1, r.2.2.1, r.2.2.2]

def figuresJ (h : HoverResult) : Json :=
  let r := rangeJ h.range
  match h.figures with
  | .account name bal n => Json.mkObj [("k", "account"), ("name", hx name),
      ("bal", Json.arr (bal.toArray.map fun (c, v) => Json.arr #[hx c, bstr (decStr v)])),
      ("n", n), ("r", r)]
  | .amount q com cost => Json.mkObj [("k", "amount"), ("q", bstr (decStr q)), ("com", hx com),
      ("cost", match cost with
        | none => Json.null
        | some (t, cq, cc) => Json.mkObj [("total", t), ("q", bstr (decStr cq)), ("com", hx cc)]),
      ("r", r)]
  | .payee name n => Json.mkObj [("k", "payee"), ("name", hx name), ("n", n), ("r", r)]
  | .date y m d payee n => Json.mkObj [("k", "date"), ("y", toJson y), ("m", toJson m), ("d", toJson d),
      ("payee", hx payee), ("n", n), ("r", r)]
  | .tag name n vals => Json.mkObj [("k", "tag"), ("name", hx name), ("n", n),
      ("values", Json.arr (vals.toArray.map hx)), ("r", r)]
  | .tagValue name v n => Json.mkObj [("k", "tagvalue"), ("name", hx name), ("value", hx v), ("n", n), ("r", r)]

/-! ### ground truth -/

def ratOfCE (j : Json) : Rat := ((intOfStr (jstr j "c") : Int) : Rat) * (10 : Rat) ^ (jint j "e")

/-- tags `[nameHex, valueHex, dropped]`; `keepDropped = false` removes the tags the parser is
    known to discard (known finding txline-tags-dropped). -/
def gtagsOf (keepDropped : Bool) (j : Json) : List (Bytes × Bytes) :=
  (arrOf (fun e => match e with
    | .arr a => (unhx a[0]!, unhx a[1]!, (fromJson? (α := Bool) a[2]!).toOption.getD false)
    | _ => ([], [], false)) j).filterMap fun (n, v, d) => if d && !keepDropped then none else some (n, v)

def gamountOf (j : Json) : GAmount := ⟨ratOfCE j, jhex j "com"⟩
def gcostOf (j : Json) : GCost := ⟨jbool j "total", ratOfCE j, jhex j "com"⟩

def gpostingOf (kd : Bool) (j : Json) : GPosting :=
  ⟨jhex j "acc", optOf gamountOf (jget j "amt"), optOf gcostOf (jget j "cost"), gtagsOf kd (jget j "tags")⟩

def gtxOf (kd : Bool) (j : Json) : GTx :=
  ⟨jhex j "payee", gtagsOf kd (jget j "tags"), arrOf (gpostingOf kd) (jget j "ps")⟩

def gfilesOf (kd : Bool) (gt : Json) : List GFile :=
  arrOf (fun f => arrOf (gtxOf kd) (jget f "txs")) (jget gt "files")

def droppedNames (gt : Json) : List Bytes :=
  (arrOf (fun f => (arrOf (fun t =>
      let ts := arrOf id (jget t "tags") ++ (arrOf (fun p => arrOf id (jget p "tags")) (jget t "ps")).flatten
      ts.filterMap fun e => match e with
        | .arr a => if (fromJson? (α := Bool) a[2]!).toOption.getD false then some (unhx a[0]!) else none
        | _ => none) (jget f "txs")).flatten) (jget gt "files")).flatten

def shownOf (j : Json) : Shown :=
  match jstr j "k" with
  | "account" => .account (jhex j "name")
      (arrOf (fun e => match e with
        | .arr a => (unhx a[0]!, bs (asStr a[1]!))
        | _ => ([], [])) (jget j "bal")) (jnat j "n")
  | "amount" => .amount (bs (jstr j "q")) (jhex j "com")
      (optOf (fun c => (jbool c "total", bs (jstr c "q"), jhex c "com")) (jget j "cost"))
  | "payee" => .payee (jhex j "name") (jnat j "n")
  | "date" => .date
  | "tag" => .tag (jhex j "name") (jnat j "n")
  | "tagvalue" => .tagValue (jhex j "name") (jhex j "value") (jnat j "n")
  | _ => .nothing

/-- The judgement of one expectation against what was shown, over a given transaction list. -/
def judge (txs : List GTx) (exp : Json) (s : Shown) : Bool :=
  match jstr exp "k" with
  | "account" => accountOk txs (jhex exp "name") s
  | "payee" => payeeOk txs (jhex exp "name") s
  | "tag" => tagOk txs (jhex exp "name") s
  | "tagvalue" => tagValueOk txs (jhex exp "name") (jhex exp "value") s
  | "amount" => amountOk (gamountOf (jget exp "amt")) (optOf gcostOf (jget exp "cost")) s
  | _ => true

def inDomainKind (k : String) : Bool :=
  k == "account" || k == "payee" || k == "tag" || k == "tagvalue" || k == "amount"

/-- Executable form of `HL.Props.C20Hover.TxWF` (header fields as parser.parseTransaction
    leaves them). -/
def txWF (tx : Transaction) : Bool :=
  tx.payee == [] || tx.description == tx.payee || tx.description == tx.payee ++ [32, 124, 32] ++ tx.note

def idxOfPath (paths : List String) (p : String) : Option Nat :=
  let i := paths.idxOf p
  if i < paths.length then some i else none

def hover (j : Json) : Json := Id.run do
  let gt := jget j "gt"
  let req := jnat j "req"
  let doc := journalOf (jget j "docj")
  let lns := HL.Text.lines (jstr j "doct").toList
  let wsv : Option WsView := (resolvedOf (jget j "wsres")).map fun r => ⟨r, bs (jstr j "wsroot")⟩
  let dpath := bs (jstr j "dpath")
  let ws := workspaceResolvedFor wsv dpath
  let res := resolvedOf (jget j "res")
  let qs := (jarr j "qs").toList
  let impl := (jarr (jget j "impl") "figs").toList
  -- model
  let model := qs.map fun q =>
    let p := match jget q "p" with
      | .arr a => (⟨asNat a[0]!, asNat a[1]!⟩ : LspPos)
      | _ => ⟨0, 0⟩
    match Hover.hoverAt wsv res dpath doc lns p with
    | some h => figuresJ h
    | none => Json.null
  -- ground truth
  let gAll := gfilesOf true gt
  let gKept := gfilesOf false gt
  let dropped := droppedNames gt
  let adj : List (List Nat) := arrOf (fun e => arrOf asNat e) (jget gt "graph")
  let wsMode := jbool gt "ws"
  let root := jnat gt "root"
  let paths : List String := arrOf (fun f => jstr f "path") (jget gt "files")
  let rootTree := reach adj root
  let reqTree := reach adj req
  -- the statement's scope: the workspace root's tree from the root and its member files, the
  -- requesting file's own include tree from anywhere else (and without a workspace)
  let members := if wsMode && rootTree.contains req then rootTree else reqTree
  let truthTxs := txsOf gAll members
  -- what the real server lists (with multiplicity), read off the resolved journal it used
  let usedWs := ws.isSome
  let used : Json := if usedWs then jget j "wsres" else jget j "res"
  let anchor := if usedWs then root else req
  let listed : List Nat :=
    if usedWs || jhas j "res" then
      let inFiles : List String := arrOf (fun e => match e with | .arr a => asStr a[0]! | _ => "") (jget used "files")
      (if jhas used "primary" then [anchor] else []) ++
        (arrOf asStr (jget used "order")).filterMap fun p =>
          if inFiles.contains p then idxOfPath paths p else none
    else [req]
  let listedTxs := listed.flatMap (fun i => gKept.getD i [])
  let gDup := listed.eraseDups.length != listed.length
  let anchorTree := if usedWs then rootTree else reqTree
  let gMissing := anchorTree.any (fun m => !listed.contains m)
  -- known finding unsaved-include-not-seen: the per-URI tree is used and holds, for an included
  -- file that is open, another tree than that of its buffer
  let dpathS := jstr j "dpath"
  let gStale := !usedWs && jhas j "res" &&
    (arrOf id (jget (jget j "res") "files")).any fun e => match e with
      | .arr a =>
        let p := asStr a[0]!
        p != dpathS && (arrOf id (jget j "bufs")).any fun b => match b with
          | .arr x => asStr x[0]! == p && x[1]!.compress != a[1]!.compress
          | _ => false
      | _ => false
  let mut specOk := true
  let mut known : Array Json := #[]
  let mut why := ""
  let mut domain := false
  let mut i := 0
  for q in qs do
    let exp := jget q "exp"
    let k := jstr exp "k"
    if jhas q "exp" && inDomainKind k then
      domain := true
      let shown : Shown := match (impl[i]? : Option Json) with
        | some Json.null => Shown.nothing
        | some f => shownOf f
        | none => Shown.nothing
      if !judge truthTxs exp shown then
        -- not what the statement demands: is it exactly one of the recorded deviations?
        let alt := judge listedTxs exp shown
        let gDropped := (k == "tag" || k == "tagvalue") &&
          (jbool exp "dropped" || dropped.contains (jhex exp "name"))
        let mut ids : Array Json := #[]
        if gDup then ids := ids.push "dup-include-doubled"
        if gMissing then ids := ids.push "warm-cache-truncated-tree"
        if gStale then ids := ids.push "unsaved-include-not-seen"
        if gDropped then ids := ids.push "txline-tags-dropped"
        let excused :=
          (alt && (gDup || gMissing || gDropped)) || gStale ||
          (gDropped && jbool exp "dropped" && shown == Shown.nothing)
        if excused then
          for id in ids do
            if !known.contains id then known := known.push id
        else if specOk then
          specOk := false
          why := s!"query {i} ({k}): shown figures differ from the exact aggregates over root + members once"
    i := i + 1
  let failed := !specOk || known.size > 0
  let journals := [doc] ++ (match ws with
      | some r => r.primary.toList ++ r.files.map (·.2)
      | none => []) ++ (match res with
      | some r => r.primary.toList ++ r.files.map (·.2)
      | none => [])
  let wf := journals.all fun jr => jr.transactions.all txWF
  return Json.mkObj [("model", Json.mkObj [("figs", Json.arr model.toArray), ("wf", wf)]), ("spec_ok", !failed),
    ("in_domain", domain), ("known", Json.arr (if specOk then known else #[])), ("why", why)]

def handle (op : String) (j : Json) : Option Json :=
  match op with
  | "c20.hover" => some (hover j)
  | _ => none

end HL.Driver.C20Hover
