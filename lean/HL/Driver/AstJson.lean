import HL.Driver.Util
import HL.Model.Ast
open Lean

/-! JSON codec for tokens and syntax trees (mirror of harness/astjson.go).
    Strings are hex-encoded bytes; positions are `[line, col, off]`; ranges 6 numbers. -/
namespace HL.Driver
open HL HL.Ast

def hx (b : Bytes) : Json := Json.str (hex b)
def unhx (j : Json) : Bytes := unhex (asStr j)
def jhex (j : Json) (k : String) : Bytes := unhex (jstr j k)

def posJ (p : Pos) : Json := natArr [p.line, p.col, p.off]
def rngJ (r : Rng) : Json := natArr [r.start.line, r.start.col, r.start.off, r.stop.line, r.stop.col, r.stop.off]
def posOf (j : Json) : Pos := match j with
  | .arr a => ⟨asNat a[0]!, asNat a[1]!, asNat a[2]!⟩
  | _ => default
def rngOf (j : Json) : Rng := match j with
  | .arr a => ⟨⟨asNat a[0]!, asNat a[1]!, asNat a[2]!⟩, ⟨asNat a[3]!, asNat a[4]!, asNat a[5]!⟩⟩
  | _ => default

def tokJ (t : Token) : Json :=
  Json.mkObj [("ty", t.ty.toCode), ("v", hx t.val), ("p", posJ t.pos), ("e", posJ t.stop)]
def tokOf (j : Json) : Token :=
  ⟨TokType.ofCode (jnat j "ty"), jhex j "v", posOf (jget j "p"), posOf (jget j "e")⟩

def intOfStr (s : String) : Int := s.toInt?.getD 0
def decJ (d : Dec) : Json := Json.mkObj [("c", toString d.coef), ("e", toJson d.exp)]
def decOf (j : Json) : Dec := ⟨intOfStr (jstr j "c"), jint j "e"⟩

def arrJ {α} (f : α → Json) (l : List α) : Json := Json.arr (l.toArray.map f)
def arrOf {α} (f : Json → α) (j : Json) : List α := match j with
  | .arr a => a.toList.map f
  | _ => []
def optJ {α} (f : α → Json) : Option α → Json
  | some a => f a
  | none => .null
def optOf {α} (f : Json → α) (j : Json) : Option α := match j with
  | .null => none
  | j => some (f j)

def statusJ : Status → Json | .none => 0 | .pending => 1 | .cleared => 2
def statusOf (j : Json) : Status := match asNat j with | 1 => .pending | 2 => .cleared | _ => .none
def virtJ : Virtual → Json | .none => 0 | .balanced => 1 | .unbalanced => 2
def virtOf (j : Json) : Virtual := match asNat j with | 1 => .balanced | 2 => .unbalanced | _ => .none
def sideJ : Side → Json | .left => 0 | .right => 1
def sideOf (j : Json) : Side := match asNat j with | 1 => .right | _ => .left

def tagJ (t : Tag) : Json := Json.mkObj [("n", hx t.name), ("v", hx t.value), ("r", rngJ t.range)]
def tagOf (j : Json) : Tag := ⟨jhex j "n", jhex j "v", rngOf (jget j "r")⟩
def commentJ (c : Comment) : Json := Json.mkObj [("t", hx c.text), ("tags", arrJ tagJ c.tags), ("r", rngJ c.range)]
def commentOf (j : Json) : Comment := ⟨jhex j "t", arrOf tagOf (jget j "tags"), rngOf (jget j "r")⟩
def dateJ (d : Date) : Json := Json.mkObj [("y", toJson d.year), ("m", toJson d.month), ("d", toJson d.day), ("r", rngJ d.range)]
def dateOf (j : Json) : Date := ⟨jint j "y", jint j "m", jint j "d", rngOf (jget j "r")⟩
def accountJ (a : Account) : Json := Json.mkObj [("n", hx a.name), ("r", rngJ a.range)]
def accountOf (j : Json) : Account := ⟨jhex j "n", rngOf (jget j "r")⟩
def commodityJ (c : Commodity) : Json := Json.mkObj [("s", hx c.symbol), ("side", sideJ c.side), ("r", rngJ c.range)]
def commodityOf (j : Json) : Commodity := ⟨jhex j "s", sideOf (jget j "side"), rngOf (jget j "r")⟩
def amountJ (a : Amount) : Json := Json.mkObj [("q", decJ a.quantity), ("raw", hx a.raw),
  ("com", commodityJ a.commodity), ("sbc", a.signBeforeCommodity), ("r", rngJ a.range)]
def amountOf (j : Json) : Amount := ⟨decOf (jget j "q"), jhex j "raw", commodityOf (jget j "com"),
  jbool j "sbc", rngOf (jget j "r")⟩
def costJ (c : Cost) : Json := Json.mkObj [("a", amountJ c.amount), ("total", c.isTotal), ("r", rngJ c.range)]
def costOf (j : Json) : Cost := ⟨amountOf (jget j "a"), jbool j "total", rngOf (jget j "r")⟩
def assertionJ (c : Assertion) : Json := Json.mkObj [("a", amountJ c.amount), ("strict", c.isStrict),
  ("incl", c.isInclusive), ("r", rngJ c.range)]
def assertionOf (j : Json) : Assertion := ⟨amountOf (jget j "a"), jbool j "strict", jbool j "incl", rngOf (jget j "r")⟩
def postingJ (p : Posting) : Json := Json.mkObj [("st", statusJ p.status), ("acc", accountJ p.account),
  ("amt", optJ amountJ p.amount), ("ba", optJ assertionJ p.assertion), ("cost", optJ costJ p.cost),
  ("cmt", hx p.comment), ("tags", arrJ tagJ p.tags), ("virt", virtJ p.virt), ("r", rngJ p.range)]
def postingOf (j : Json) : Posting := ⟨statusOf (jget j "st"), accountOf (jget j "acc"),
  optOf amountOf (jget j "amt"), optOf assertionOf (jget j "ba"), optOf costOf (jget j "cost"),
  jhex j "cmt", arrOf tagOf (jget j "tags"), virtOf (jget j "virt"), rngOf (jget j "r")⟩
def txJ (t : Transaction) : Json := Json.mkObj [("date", dateJ t.date), ("date2", optJ dateJ t.date2),
  ("st", statusJ t.status), ("code", hx t.code), ("desc", hx t.description), ("payee", hx t.payee),
  ("note", hx t.note), ("ps", arrJ postingJ t.postings), ("tags", arrJ tagJ t.tags),
  ("cmts", arrJ commentJ t.comments), ("r", rngJ t.range)]
def txOf (j : Json) : Transaction := ⟨dateOf (jget j "date"), optOf dateOf (jget j "date2"),
  statusOf (jget j "st"), jhex j "code", jhex j "desc", jhex j "payee", jhex j "note",
  arrOf postingOf (jget j "ps"), arrOf tagOf (jget j "tags"), arrOf commentOf (jget j "cmts"), rngOf (jget j "r")⟩
def includeJ (i : Include) : Json := Json.mkObj [("path", hx i.path), ("r", rngJ i.range)]
def includeOf (j : Json) : Include := ⟨jhex j "path", rngOf (jget j "r")⟩

/-- Sub-directive maps are emitted sorted by key (Go map order is not observable). -/
def subJ (s : Subdirs) : Json :=
  let l := s.toArray.qsort (fun a b => hex a.1 < hex b.1)
  Json.arr (l.map fun (k, v) => Json.arr #[hx k, hx v])
def subOf (j : Json) : Subdirs := arrOf (fun e => match e with
  | .arr a => (unhx a[0]!, unhx a[1]!)
  | _ => ([], [])) j

def directiveJ : Directive → Json
  | .account a tags c sub r => Json.mkObj [("k", "account"), ("acc", accountJ a), ("tags", arrJ tagJ tags),
      ("cmt", hx c), ("sub", subJ sub), ("r", rngJ r)]
  | .commodity c f n sub r => Json.mkObj [("k", "commodity"), ("com", commodityJ c), ("fmt", hx f),
      ("note", hx n), ("sub", subJ sub), ("r", rngJ r)]
  | .price d c p r => Json.mkObj [("k", "price"), ("date", dateJ d), ("com", commodityJ c),
      ("price", amountJ p), ("r", rngJ r)]
  | .year y r => Json.mkObj [("k", "year"), ("y", toJson y), ("r", rngJ r)]
  | .defaultCommodity s f r => Json.mkObj [("k", "D"), ("sym", hx s), ("fmt", hx f), ("r", rngJ r)]
def directiveOf (j : Json) : Directive :=
  let r := rngOf (jget j "r")
  match jstr j "k" with
  | "account" => .account (accountOf (jget j "acc")) (arrOf tagOf (jget j "tags")) (jhex j "cmt") (subOf (jget j "sub")) r
  | "commodity" => .commodity (commodityOf (jget j "com")) (jhex j "fmt") (jhex j "note") (subOf (jget j "sub")) r
  | "price" => .price (dateOf (jget j "date")) (commodityOf (jget j "com")) (amountOf (jget j "price")) r
  | "year" => .year (jint j "y") r
  | _ => .defaultCommodity (jhex j "sym") (jhex j "fmt") r

def journalJ (jr : Journal) : Json := Json.mkObj [("txs", arrJ txJ jr.transactions),
  ("dirs", arrJ directiveJ jr.directives), ("cmts", arrJ commentJ jr.comments), ("incs", arrJ includeJ jr.includes)]
def journalOf (j : Json) : Journal := ⟨arrOf txOf (jget j "txs"), arrOf directiveOf (jget j "dirs"),
  arrOf commentOf (jget j "cmts"), arrOf includeOf (jget j "incs")⟩

def perrJ (e : ParseError) : Json := Json.mkObj [("m", hx e.msg), ("p", posJ e.pos)]
def perrOf (j : Json) : ParseError := ⟨jhex j "m", posOf (jget j "p")⟩

end HL.Driver
