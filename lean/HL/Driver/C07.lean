import HL.Driver.Util
import HL.Spec.Contained
open Lean
namespace HL.Driver.C07
open HL.Driver HL.Contained

def viewOf (j : Json) : View :=
  { entries := (jarr j "entries").toList.map fun e => ⟨jnat e "line", jstr e "sig"⟩,
    errors := (jarr j "errors").toList.map asNat,
    diags := (jarr j "diags").toList.map fun d => ⟨jnat d "line", jstr d "code", jstr d "msg"⟩ }

/-- op c07.damage: oracle only (the parser's correspondence is op parse.tokens). -/
def damage (j : Json) : Json :=
  let impl := jget j "impl"
  let before := viewOf (jget impl "before")
  let after := viewOf (jget impl "after")
  let first := jnat j "first"
  let last := jnat j "last"
  let k := jnat j "k"
  let dom := before.errors.isEmpty
  let ok := contained first last k before after
  Json.mkObj [("spec_ok", !dom || ok), ("in_domain", dom), ("known", Json.arr #[]),
    ("why", if ok then "" else why first last k before after), ("nontrivial", dom && !after.errors.isEmpty)]

/-- op c07.tight: the same for journals without blank lines between entries. -/
def tight (j : Json) : Json :=
  let impl := jget j "impl"
  let before := viewOf (jget impl "before")
  let after := viewOf (jget impl "after")
  let first := jnat j "first"
  let last := jnat j "last"
  let k := jnat j "k"
  let col1 := jnat j "col1" == 1
  let dom := before.errors.isEmpty
  let ok := containedTight first last k col1 before after
  Json.mkObj [("spec_ok", !dom || ok), ("in_domain", dom), ("known", Json.arr #[]),
    ("why", if ok then "" else whyTight first last k col1 before after), ("nontrivial", dom && !after.errors.isEmpty)]

def handle (op : String) (j : Json) : Option Json :=
  match op with
  | "c07.damage" => some (damage j)
  | "c07.tight" => some (tight j)
  | _ => none
end HL.Driver.C07
