import HL.Driver.Util
import HL.Model.Settings
import HL.Spec.SettingsSpec
open Lean

namespace HL.Driver.C19
open HL.Settings

abbrev J := HL.Settings.Json

/-- tagged form written by harness/c19.go (`c19Tag`) -/
partial def untag (j : Lean.Json) : J :=
  match jstr j "t" with
  | "z" => .null
  | "b" => .bool (jbool j "v")
  | "n" => .num ((jstr j "m").toInt?.getD 0) (jint j "e")
  | "s" => .str (jstr j "v")
  | "a" => .arr ((jarr j "v").toList.map untag)
  | "o" => .obj ((jarr j "v").toList.map fun kv =>
      match kv with
      | .arr a => (asStr a[0]!, untag a[1]!)
      | _ => ("", .null))
  | _ => .null

def valJson : Val → Lean.Json
  | .b v => toJson v
  | .i v => toJson (toString v)
  | .s v => Lean.Json.mkObj [("s", toJson v)]

def viewOf (s : Settings) : Lean.Json :=
  Lean.Json.mkObj (Leaf.all.map fun l => (l.goName, valJson (get s l)))

def ofView (j : Lean.Json) : Settings :=
  Leaf.all.foldl (fun s l =>
    let x := jget j l.goName
    match get s l with
    | .b _ => set s l (.b ((fromJson? (α := Bool) x).toOption.getD false))
    | .i _ => set s l (.i ((asStr x).toInt?.getD 0))
    | .s _ => set s l (.s (jstr x "s"))) defaults

/-- op c19.facts -/
def facts (_ : Lean.Json) : Lean.Json := Id.run do
  let mut spaces : Array Nat := #[]
  let mut lower : Array Lean.Json := #[]
  let letters := "truefals".toList
  for n in [0:0x110000] do
    if 0xD800 ≤ n && n ≤ 0xDFFF then continue
    let c := Char.ofNat n
    if isSpace c then spaces := spaces.push n
    let l := lowerAscii c
    if letters.contains l then lower := lower.push (toJson #[n, l.toNat])
  return Lean.Json.mkObj [("model", Lean.Json.mkObj [
    ("spaces", toJson spaces), ("lower", Lean.Json.arr lower), ("bad", Lean.Json.arr #[]),
    ("intBits", toJson (64 : Nat))])]

/-- stable insertion of `e` by field name (after the entries with the same or a smaller name) -/
def insertByField (e : Entry) : List Entry → List Entry
  | [] => [e]
  | x :: r => if e.leaf.goName < x.leaf.goName then e :: x :: r else x :: insertByField e r

/-- Statements of applySettingsMap that write different fields commute: the table is compared
    after a stable sort by field (the harness sorts the extracted table the same way), so the
    order of the statements writing ONE field is kept and the rest is forgotten. -/
def sortByField (l : List Entry) : List Entry := l.foldl (fun acc e => insertByField e acc) []

/-- op c19.keys -/
def keys (_ : Lean.Json) : Lean.Json :=
  let entries := (sortByField keyTable).map fun e => Lean.Json.mkObj [
    ("g", toJson (e.group.getD "")), ("k", toJson e.key), ("c", toJson e.leaf.coerce.name),
    ("f", toJson e.leaf.goName), ("x", toJson e.leaf.xform)]
  let norm := normRules.map fun r => Lean.Json.mkObj [("f", toJson r.leaf.goName),
    ("cond", toJson r.cond.src),
    ("to", toJson (match r.to with | .default => "default" | .const v => toString v))]
  Lean.Json.mkObj [("model", Lean.Json.mkObj [
    ("entries", Lean.Json.arr entries.toArray), ("norm", Lean.Json.arr norm.toArray),
    ("wrapper", toJson #["hledger"]), ("defaults", viewOf defaults)])]

def leafNames (ls : List Leaf) : String := ", ".intercalate (ls.map Leaf.goName)

/-- One application of a payload, judged by the statement's rule on the implementation's
    settings before and after.  Returns (ok, why). -/
def judge (prev : Settings) (p : J) (res : Settings) : Bool × String :=
  if HL.SettingsSpec.specOk prev p res then (true, "")
  else
    let bad := HL.SettingsSpec.failingLeaves (HL.SettingsSpec.levels p) prev res
    (false, s!"fields not as the statement's rule requires: {leafNames bad}" ++
      (if HL.SettingsSpec.valid res then "" else "; stored settings not validated"))

/-- op c19.parse: `model` = settings after every payload;
    spec_ok = every step satisfies the statement's rule (on the implementation's output);
    in_domain = the settings the first payload is applied to are validated ones. -/
def parse (j : Lean.Json) : Lean.Json := Id.run do
  let mut s := ofView (jget j "prev")
  let mut out : Array Lean.Json := #[]
  let impl := jarr j "impl"
  let mut implPrev := s
  let domain := HL.SettingsSpec.valid s
  let mut ok := true
  let mut why := ""
  let mut nontrivial := false
  let mut i := 0
  for p in jarr j "ps" do
    if p.isNull then
      out := out.push (viewOf s)
    else
      let pj := untag p
      s := parseSettingsFromRaw s pj
      out := out.push (viewOf s)
      let implNow := ofView (impl[i]?.getD .null)
      if domain then
        let (o, w) := judge implPrev pj implNow
        if !o then
          ok := false
          why := why ++ s!"payload {i}: {w}; "
        if Leaf.all.any (fun l => HL.SettingsSpec.mentions l (HL.SettingsSpec.levels pj) ≠ []) then
          nontrivial := true
      implPrev := implNow
    i := i + 1
  return Lean.Json.mkObj [("model", Lean.Json.arr out), ("spec_ok", ok || !domain),
    ("in_domain", domain), ("known", Lean.Json.arr #[]), ("why", why),
    ("nontrivial", domain && nontrivial)]

/-! ### c19.seq -/

def capsJson (c : Caps) : Lean.Json := Lean.Json.mkObj [
  ("completionProvider", c.completionProvider), ("hoverProvider", c.hoverProvider),
  ("documentFormattingProvider", c.documentFormattingProvider),
  ("semanticTokensProvider", c.semanticTokensProvider),
  ("foldingRangeProvider", c.foldingRangeProvider), ("documentLinkProvider", c.documentLinkProvider),
  ("workspaceSymbolProvider", c.workspaceSymbolProvider), ("codeActionProvider", c.codeActionProvider),
  ("executeCommandProvider", c.executeCommandProvider),
  ("inlineCompletionProvider", c.inlineCompletionProvider)]

def obsJson (o : HL.SettingsSpec.Obs) : Lean.Json :=
  let tri (x : Option (Option (Int × Int))) (a b : String) : Lean.Json :=
    match x with
    | none => "skipped"
    | some none => "panic"
    | some (some (p, q)) => Lean.Json.mkObj [(a, toJson p), (b, toJson q)]
  Lean.Json.mkObj [
    ("completionItems", toJson o.completionItems), ("subsequenceItems", toJson o.subsequenceItems),
    ("countsShown", o.countsShown), ("format", tri o.format "indent" "amountColumn"),
    ("gate", Lean.Json.mkObj (o.gate.map fun (m, w) => (m, toJson w))),
    ("inline", tri o.inline "items" "indent"),
    ("published", toJson o.published), ("codes", toJson o.codes.toArray),
    ("docTooLarge", o.docTooLarge), ("depthExceeded", o.depthExceeded),
    ("includeTooLarge", o.includeTooLarge)]

/-- the model's prediction for the request probes: `Server.FeatureGate` on the model's
    settings (`HL.Settings.dispatch`); the probed methods and which of them have a non-empty
    answer are the scenario's (`HL.SettingsSpec.featureRequests`) -/
def modelGate (σ : Srv) : List (String × String) :=
  HL.SettingsSpec.featureRequests.map fun (m, _, ne) =>
    (m, match dispatch σ m ne with
      | none => "null"
      | some true => "answered"
      | some false => "passed")

/-- was the feature that governs request `m` advertised by `Initialize`?  (requests without a
    switch: always served) -/
def advertised (caps : Option Caps) (m : String) : Bool :=
  match featureOfMethod m requestFeature with
  | none => true
  | some f => match caps with
    | none => false
    | some c => (c.advertises f).getD true

/-- The oracle on the request probes: a request of a switched-off feature gets the empty
    answer; a switched-on feature that was advertised answers as before; a switched-on feature
    that was not advertised is outside the statement.  Returns the first offending request. -/
def judgeGate (caps : Option Caps) (want : List (String × String)) (o : Lean.Json) : Option String :=
  want.findSome? fun (m, w) =>
    let g := jstr o m
    if w == "null" then (if g == "null" then none else some s!"{m} of a switched-off feature still answered ({g})")
    else if !advertised caps m then none
    else if g == w then none else some s!"{m} of a switched-on, advertised feature: {g}, expected {w}"

def pendingIdx (σ : Srv) : List Nat :=
  (σ.tasks.zipIdx.filter fun (t, _) => match t.pc with | .asked => true | _ => false).map (·.2)

def stateJson (σ : Srv) : List (String × Lean.Json) := [
  ("settings", viewOf σ.settings), ("cfg", σ.supportsCfg), ("pending", toJson (pendingIdx σ).length)]

def ok! (σ : Srv) (r : Except Panic Srv) : Srv := match r with | .ok x => x | .error _ => σ

def wrapTagged (p : Lean.Json) : Lean.Json :=
  Lean.Json.mkObj [("t", "o"), ("v", Lean.Json.arr #[Lean.Json.arr #["hledger", p]])]

/-- op c19.seq — see harness/c19.go `c19SeqCase` for the events.
    model    = per event: settings, supportsConfiguration, number of blocked pulls, and for
               `init` the capabilities, for `observe` the probe results the model predicts
               (stored settings, loader cache as the model has it);
    spec_ok  = (a) every payload delivered by a conforming client — initialization options, the
               settings pushed with didChangeConfiguration to a server that cannot ask, or the
               answer to the server's LATEST workspace/configuration request — changes the
               implementation's settings as the statement's rule says;
               (b) the answer to a request that has been superseded by a newer change
               notification changes nothing, in whatever order the answers are handled — so
               that the settings at rest are those of the latest request;
               (c) probes show the stored settings in effect — the limits as a loader with an
               empty cache applies them — and no handler fails;
               (d) every feature switch is obeyed by the requests it governs, whatever was
               advertised at initialisation: a request of a switched-off feature gets the
               empty answer, a switched-on feature that was advertised answers as before. -/
def seq (j : Lean.Json) : Lean.Json := Id.run do
  let events := jarr j "events"
  let impl := jarr j "impl"
  let hasClient := match events[0]? with
    | some e => !(jhas e "client" && !(jbool e "client"))
    | none => true
  let mut σ := newServer hasClient
  let mut out : Array Lean.Json := #[]
  -- oracle state
  let mut implPrev := σ.settings
  let mut domain := true
  let mut ok := true
  let mut why := ""
  let mut known : Array String := #[]
  let mut unexcused := false
  -- the pulls still blocked, oldest first: request number, pushed payload (tagged / decoded)
  let mut pushes : Array (Nat × Lean.Json × J) := #[]
  let mut requests := 0        -- refresh requests announced so far (initialized, changes)
  let mut caps0 : Option Caps := none
  let mut nontrivial := false
  let mut i := 0
  for e in events do
    let implSt := impl[i]?.getD .null
    let implNow := ofView (jget implSt "settings")
    let mut extra : List (String × Lean.Json) := []
    let mut verdict : Option (Bool × String × String) := none   -- (ok, known id or "", why)
    match jstr e "k" with
    | "init" =>
      let p := jget e "p"
      if p.isNull then
        extra := [("decodeError", true)]
      else
        let wc : Option Bool := match jget e "cfg" with
          | .bool b => some b
          | _ => none
        let pj := untag p
        match initializeSrv σ (some ⟨wc, pj⟩) with
        | .ok (σ', caps) =>
          σ := σ'
          extra := [("caps", capsJson caps)]
          caps0 := some (capsOf implNow)   -- = the advertised ones, or the verdict below fails
        | .error _ => extra := [("error", true)]
        if domain then
          let (o, w) := judge implPrev pj implNow
          if !o then verdict := some (false, "", s!"event {i} (initialize): {w}")
          else if capsJson (capsOf implNow) != jget implSt "caps" then
            verdict := some (false, "", s!"event {i}: advertised capabilities do not follow the feature switches")
          if Leaf.all.any (fun l => HL.SettingsSpec.mentions l (HL.SettingsSpec.levels pj) ≠ []) then nontrivial := true
    | "initialized" =>
      let n := σ.tasks.length
      σ := ok! σ (stepTask (ok! σ (step σ .initialized)) n .err)
      requests := requests + 1
      if (pendingIdx σ).length > pushes.size then pushes := pushes.push (requests, .null, .null)
    | "change" =>
      let p := jget e "p"
      if p.isNull then
        extra := [("decodeError", true)]
      else
        let n := σ.tasks.length
        let pj := untag p
        σ := ok! σ (stepTask (ok! σ (step σ (.didChangeConfiguration pj))) n .err)
        requests := requests + 1
        if Leaf.all.any (fun l => HL.SettingsSpec.mentions l (HL.SettingsSpec.levels pj) ≠ []) then nontrivial := true
        if (pendingIdx σ).length > pushes.size then
          pushes := pushes.push (requests, p, pj)
        else if domain then
          -- the server does not pull (no client, or the client did not announce
          -- workspace.configuration): the pushed settings are all it will ever see
          let (o, w) := judge implPrev pj implNow
          if !o then
            verdict := some (false, "", s!"event {i} (didChangeConfiguration, no pull): {w}")
    | "answer" =>
      let t := jnat e "task"
      match (pendingIdx σ)[t]? with
      | none => pure ()
      | some idx =>
        let reply : Pull := if jbool e "err" then .err else .items ((jarr e "ps").toList.map untag)
        σ := ok! σ (stepTask σ idx reply)
        σ := ok! σ (stepTask σ idx reply)
        let (req, pushed, pj) := pushes[t]?.getD (0, .null, .null)
        pushes := pushes.eraseIdx! t
        -- a conforming client answers with the settings it announced
        let ps := jarr e "ps"
        let conforming := !jbool e "err" && ps.size == 1 &&
          (if pushed.isNull then ps[0]! == Lean.Json.mkObj [("t", "z")]
           else ps[0]! == pushed || wrapTagged ps[0]! == pushed)
        if !conforming then domain := false
        if domain then
          if req == requests then
            -- the answer to the latest request: applied by the rule
            let (o, w) := judge implPrev pj implNow
            if !o then verdict := some (false, "", s!"event {i} (answer to the latest request): {w}")
          else if implNow != implPrev then
            verdict := some (false, "",
              s!"event {i}: the answer to a superseded request (number {req} of {requests}) changed the settings: {leafNames (Leaf.all.filter fun l => get implNow l != get implPrev l)}")
    | "observe" =>
      let fresh := !jbool e "reuse"
      let cacheUsed := if fresh then [] else σ.cache
      let exp := { HL.SettingsSpec.expectedObsAt σ.settings hasClient
        (fun L D => ((includeProbe cacheUsed L D).1, (includeProbe cacheUsed L D).2.1)) with
        gate := modelGate σ }
      σ := ok! σ (step σ (.probe fresh))
      extra := [("obs", obsJson exp)]
      if domain then
        let o := jget implSt "obs"
        -- the statement: the stored limits govern the load, whatever was loaded before
        let want := HL.SettingsSpec.expectedObs implNow hasClient
        -- the request probes are judged separately (what was advertised matters there)
        let strip (x : Lean.Json) : Lean.Json := x.setObjVal! "gate" Lean.Json.null
        if jget o "format" == "panic" || jget o "inline" == "panic" then
          verdict := some (false, "", s!"event {i}: a request handler panics with the accepted settings")
        else if strip o != strip (obsJson want) then
          verdict := some (false, "", s!"event {i}: observed behaviour does not follow the stored settings")
        else match judgeGate caps0 want.gate (jget o "gate") with
          | some w => verdict := some (false, "", s!"event {i}: {w}")
          | none => pure ()
        if want.gate.any (fun (_, w) => w == "null") then nontrivial := true
    | _ => pure ()
    match verdict with
    | some (false, k, w) =>
      ok := false
      if why.isEmpty then why := w
      if k.isEmpty then unexcused := true else if !known.contains k then known := known.push k
    | _ => pure ()
    out := out.push (Lean.Json.mkObj (extra ++ stateJson σ))
    implPrev := implNow
    i := i + 1
  return Lean.Json.mkObj [("model", Lean.Json.arr out), ("spec_ok", ok),
    ("in_domain", domain), ("known", toJson (if unexcused then #[] else known)), ("why", why),
    ("nontrivial", nontrivial)]

/-! ### c19.wire -/

/-- the requests probed over the wire (harness `c19WireMethods`): the scenario's, without
    textDocument/codeAction, which cmd/hledger-lsp's dispatcher answers with null itself -/
def wireRequests : List (String × (Settings → Bool) × Bool) :=
  HL.SettingsSpec.featureRequests.filter fun (m, _, _) => m != "textDocument/codeAction"

/-- what the statement's rule says about one switch after a payload: `some b` = it is `b`,
    `none` = the rule leaves it open (an unspecified value, or several different good ones) -/
def ruleSwitch (l : Leaf) (prev : Option Bool) (p : J) : Option Bool :=
  let ms := HL.SettingsSpec.mentions l (HL.SettingsSpec.levels p)
  if ms.contains .unspec then none
  else match HL.SettingsSpec.goods ms with
    | [] => prev
    | g :: gs => if gs.all (· == g) then (match g with | .b v => some v | _ => none) else none

/-- op c19.wire — the built binary (harness `c19WireCase`): initialize without
    `workspace.configuration` and without options, then per step an optional pushed payload and
    one request per probed method.
    model   = per step the gate words the model predicts (`dispatch` on the model's settings);
    spec_ok = a request of a switched-off feature gets null, a switched-on one is answered
              (every feature is advertised: the options are empty) — the switches as the
              statement's rule determines them from the payloads pushed so far. -/
def wire (j : Lean.Json) : Lean.Json := Id.run do
  let steps := jarr j "steps"
  let impl := jarr j "impl"
  let mut σ := newServer true
  let mut caps0 : Option Caps := none
  match initializeSrv σ (some ⟨none, .null⟩) with
  | .ok (σ', c) =>
    σ := σ'
    caps0 := some c
  | .error _ => pure ()
  σ := ok! σ (stepTask (ok! σ (step σ .initialized)) 0 .err)
  let mut sw : List (Feature × Option Bool) := Feature.all.map fun f => (f, some true)
  let mut out : Array Lean.Json := #[]
  let mut ok := true
  let mut why := ""
  let mut nontrivial := false
  let mut i := 0
  for p in steps do
    if !p.isNull then
      let pj := untag p
      σ := ok! σ (step σ (.didChangeConfiguration pj))
      sw := sw.map fun (f, b) => (f, ruleSwitch f.leaf b pj)
    let words := (modelGate σ).filter fun (m, _) => wireRequests.any fun (m', _, _) => m' == m
    out := out.push (Lean.Json.mkObj [("gate", Lean.Json.mkObj (words.map fun (m, w) => (m, toJson w)))])
    let o := jget (impl[i]?.getD .null) "gate"
    for (m, _, ne) in wireRequests do
      let g := jstr o m
      let want : Option String := match featureOfMethod m requestFeature with
        | none => some (HL.SettingsSpec.gateWord true ne)
        | some f => match (sw.find? fun (f', _) => f' == f).bind (·.2) with
          | some b => if b && !advertised caps0 m then none else some (HL.SettingsSpec.gateWord b ne)
          | none => none
      match want with
      | some w =>
        if w == "null" then nontrivial := true
        if g != w && ok then
          ok := false
          why := s!"step {i}: {m} answered {g}, the switches pushed so far ask for {w}"
      | none => pure ()
    i := i + 1
  return Lean.Json.mkObj [("model", Lean.Json.arr out), ("spec_ok", ok), ("in_domain", true),
    ("known", Lean.Json.arr #[]), ("why", why), ("nontrivial", nontrivial)]

def handle (op : String) (j : Lean.Json) : Option Lean.Json :=
  match op with
  | "c19.facts" => some (facts j)
  | "c19.keys" => some (keys j)
  | "c19.parse" => some (parse j)
  | "c19.seq" => some (seq j)
  | "c19.wire" => some (wire j)
  | _ => none

end HL.Driver.C19
