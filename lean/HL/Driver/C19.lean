import HL.Driver.Util
import HL.Model.Settings
open Lean

namespace HL.Driver.C19
open HL.Settings

abbrev J := HL.Settings.Json

/-- tagged form written by harness/c19.go (`c19Tag`) -/
partial def untag (j : Lean.Json) : J :=
  match jstr j "t" with
  | "z" => .null
  | "b" => .bool (jbool j "v")
  | "n" => .num ((jstr j "m").toInt?.getD 0) (jint j "e")
  | "s" => .str (jstr j "v")
  | "a" => .arr ((jarr j "v").toList.map untag)
  | "o" => .obj ((jarr j "v").toList.map fun kv =>
      match kv with
      | .arr a => (asStr a[0]!, untag a[1]!)
      | _ => ("", .null))
  | _ => .null

def valJson : Val → Lean.Json
  | .b v => toJson v
  | .i v => toJson (toString v)
  | .s v => Lean.Json.mkObj [("s", toJson v)]

def viewOf (s : Settings) : Lean.Json :=
  Lean.Json.mkObj (Leaf.all.map fun l => (l.goName, valJson (get s l)))

def ofView (j : Lean.Json) : Settings :=
  Leaf.all.foldl (fun s l =>
    let x := jget j l.goName
    match get s l with
    | .b _ => set s l (.b ((fromJson? (α := Bool) x).toOption.getD false))
    | .i _ => set s l (.i ((asStr x).toInt?.getD 0))
    | .s _ => set s l (.s (jstr x "s"))) defaults

/-- op c19.facts -/
def facts (_ : Lean.Json) : Lean.Json := Id.run do
  let mut spaces : Array Nat := #[]
  let mut lower : Array Lean.Json := #[]
  let letters := "truefals".toList
  for n in [0:0x110000] do
    if 0xD800 ≤ n && n ≤ 0xDFFF then continue
    let c := Char.ofNat n
    if isSpace c then spaces := spaces.push n
    let l := lowerAscii c
    if letters.contains l then lower := lower.push (toJson #[n, l.toNat])
  return Lean.Json.mkObj [("model", Lean.Json.mkObj [
    ("spaces", toJson spaces), ("lower", Lean.Json.arr lower), ("bad", Lean.Json.arr #[]),
    ("intBits", toJson (64 : Nat))])]

/-- op c19.keys -/
def keys (_ : Lean.Json) : Lean.Json :=
  let entries := keyTable.map fun e => Lean.Json.mkObj [
    ("g", toJson (e.group.getD "")), ("k", toJson e.key), ("c", toJson e.leaf.coerce.name),
    ("f", toJson e.leaf.goName), ("x", toJson e.leaf.xform)]
  let norm := normRules.map fun (l, c) => Lean.Json.mkObj [("f", toJson l.goName), ("cond", toJson c.src)]
  Lean.Json.mkObj [("model", Lean.Json.mkObj [
    ("entries", Lean.Json.arr entries.toArray), ("norm", Lean.Json.arr norm.toArray),
    ("wrapper", toJson #["hledger"]), ("defaults", viewOf defaults)])]

/-- op c19.parse -/
def parse (j : Lean.Json) : Lean.Json := Id.run do
  let mut s := ofView (jget j "prev")
  let mut out : Array Lean.Json := #[]
  for p in jarr j "ps" do
    if p.isNull then
      out := out.push (viewOf s)
    else
      s := parseSettingsFromRaw s (untag p)
      out := out.push (viewOf s)
  return Lean.Json.mkObj [("model", Lean.Json.arr out)]

def handle (op : String) (j : Lean.Json) : Option Lean.Json :=
  match op with
  | "c19.facts" => some (facts j)
  | "c19.keys" => some (keys j)
  | "c19.parse" => some (parse j)
  | _ => none

end HL.Driver.C19
