import HL.Driver.Util
import HL.Model.Text
import HL.Spec.RefBuffer
import HL.Model.Derived
open Lean HL.Text

namespace HL.Driver.C01

def parseRange (j : Json) : Range :=
  match j with
  | .arr a => ⟨asNat a[0]!, asNat a[1]!, asNat a[2]!, asNat a[3]!⟩
  | _ => ⟨0, 0, 0, 0⟩

def parseChange (j : Json) : HL.Ref.Change :=
  let t := (jstr j "t").toList
  if jhas j "r" then .ranged (parseRange (jget j "r")) t else .full t

def parseNote (j : Json) : HL.Ref.Note :=
  match jstr j "k" with
  | "open" => .didOpen (jstr j "u") (jstr j "t").toList
  | "change" => .didChange (jstr j "u") ((jarr j "cs").toList.map parseChange)
  | _ => .didClose (jstr j "u")

def docsJson (d : HL.Text.Docs) : Json :=
  let l := d.toArray.qsort (fun a b => a.1 < b.1)
  Json.arr (l.map fun (u, t) => Json.mkObj [("u", u), ("t", String.ofList t)])

/-- op c01.hist: run a history through model and reference client.
    model   = the model's document store after every notification;
    spec_ok = at every step up to the first non-conforming notification the implementation's
              store ("impl") equals the reference client's buffers. -/
def hist (j : Json) : Json := Id.run do
  let notes := (jarr j "notes").toList.map parseNote
  let impl := jarr j "impl"
  let mut d : HL.Text.Docs := []
  let mut rd : HL.Ref.Docs := []
  let mut out : Array Json := #[]
  let mut domain := true
  let mut specOk := true
  let mut why := ""
  let mut ranged := false
  let mut i := 0
  for n in notes do
    domain := domain && HL.Ref.noteOK d n
    match n with
    | .didChange u cs => if (d.get u).isSome && cs.any (fun c => match c with | .ranged _ _ => true | _ => false) then ranged := true
    | _ => pure ()
    d := HL.Text.step true d (HL.Ref.wireNote n)
    rd := HL.Ref.step rd n
    let implDocs := match impl[i]? with
      | some (.arr a) => a.toList.map fun e => (jstr e "u", (jstr e "t").toList)
      | _ => []
    let stepOk := implDocs.length == rd.length &&
      implDocs.all fun (u, t) => HL.Ref.Docs.get rd u == some (HL.Ref.enc16 t)
    if domain && !stepOk && specOk then
      specOk := false
      why := s!"step {i}: server text differs from the client buffer"
    out := out.push (docsJson d)
    i := i + 1
  return Json.mkObj [("model", Json.arr out), ("spec_ok", specOk),
    ("in_domain", domain), ("known", Json.arr #[]), ("why", why),
    ("nontrivial", domain && ranged)]

def u16 (j : Json) : Json :=
  let s := (jstr j "s").toList
  let n := jnat j "n"
  Json.mkObj [("model", Json.mkObj [("utf16ToByte", utf16ToByte s n),
    ("byteToUtf16", byteToUtf16 s n), ("u16len", u16len s)])]

def apply (j : Json) : Json :=
  let s := (jstr j "s").toList
  let r := parseRange (jget j "r")
  let t := (jstr j "t").toList
  let m := applyChange true s r t
  let ok := HL.Ref.rangeOK s r
  let ref := HL.Ref.applyOne (HL.Ref.enc16 s) (.ranged r t)
  let implT := (jstr j "impl").toList
  Json.mkObj [("model", String.ofList m), ("in_domain", ok),
    ("spec_ok", !ok || HL.Ref.enc16 implT == ref), ("why", "ApplyChange differs from the client buffer"),
    ("nontrivial", ok)]

/-- op c01.fresh: change / save / close / inline-completion events; texts are version numbers.
    model = for every inline request the version the served templates were computed from
    (HL.Derived.served with `templates := id`; -1 when the document is closed);
    spec_ok = the implementation's answer corresponds to the document's CURRENT version. -/
def fresh (j : Json) : Json := Id.run do
  let evs := (jarr j "events").toList
  let impl := (jarr j "impl").toList.map fun x => (fromJson? (α := Int) x).toOption.getD (-2)
  let mut σ : HL.Derived.St Nat Nat := HL.Derived.St.init
  let mut model : Array Json := #[]
  let mut want : List Int := []
  for e in evs do
    let u := jnat e "u"
    match jstr e "k" with
    | "change" => σ := HL.Derived.step id true σ (.change u (jnat e "v"))
    | "save" => σ := HL.Derived.step id true σ (.save u)
    | "close" => σ := HL.Derived.step id true σ (.close u)
    | _ =>
      let s := HL.Derived.served id σ u
      let cur : Int := match σ.docs u with | some t => t | none => -1
      let sv : Int := match s with | some t => t | none => -1
      model := model.push (toJson sv)
      want := want ++ [cur]
      σ := HL.Derived.step id true σ (.inline u)
  let ok := impl == want
  return Json.mkObj [("model", Json.arr model), ("spec_ok", ok), ("in_domain", true),
    ("known", Json.arr #[]), ("why", "an inline completion answer was not computed from the document's current text"),
    ("nontrivial", decide (want.length ≥ 2))]

def handle (op : String) (j : Json) : Option Json :=
  match op with
  | "c01.hist" => some (hist j)
  | "c01.fresh" => some (fresh j)
  | "c01.u16" => some (u16 j)
  | "c01.apply" => some (apply j)
  | _ => none

end HL.Driver.C01
