import HL.Driver.Util
import HL.Model.Completion
import HL.Spec.CompletionSpec
open Lean HL.Text HL.Completion HL.CompletionSpec

namespace HL.Driver.C16

def strOf (j : Json) : Str := (asStr j).toList
def jstrL (j : Json) (k : String) : Str := (jstr j k).toList
def strArr (j : Json) : List Str := match j with | .arr a => a.toList.map strOf | _ => []
def jsonStr (s : Str) : Json := Json.str (String.ofList s)
def jsonStrs (l : List Str) : Json := Json.arr (l.map jsonStr).toArray

def kvLists (j : Json) : List (Str × List Str) :=
  match j with | .arr a => a.toList.map fun e => (jstrL e "k", strArr (jget e "v")) | _ => []
def kvCounts (j : Json) : List (Str × Nat) :=
  match j with | .arr a => a.toList.map fun e => (jstrL e "k", jnat e "n") | _ => []

def parseTable (j : Json) : Table :=
  { accounts := strArr (jget j "acc"), byPrefix := kvLists (jget j "idx"),
    payees := strArr (jget j "pay"), commodities := strArr (jget j "com"), tags := strArr (jget j "tag"),
    tagValues := kvLists (jget j "tv"),
    accountCounts := kvCounts (jget j "accN"), payeeCounts := kvCounts (jget j "payN"),
    commodityCounts := kvCounts (jget j "comN"), tagCounts := kvCounts (jget j "tagN") }

def ctxName : Ctx → String
  | .unknown => "unknown" | .account => "account" | .payee => "payee" | .commodity => "commodity"
  | .tagName => "tagName" | .tagValue => "tagValue" | .date => "date"

def ctxOfName : String → Option Ctx
  | "account" => some .account | "payee" => some .payee | "commodity" => some .commodity
  | "tagName" => some .tagName | "tagValue" => some .tagValue | "date" => some .date
  | "unknown" => some .unknown | _ => none

def rangeJson : Option (Nat × Nat) → Json
  | some (s, e) => natArr [s, e]
  | none => .null

/-! ### One answer of the model, in the shape the harness observes

  The ranking is `sort.SliceStable` on a deterministic candidate order, so the labels are compared
  with the implementation's position by position. -/

structure Obs where
  ctx : String
  range : Option (Nat × Nat)
  filter : Option Str
  items : List Str
  ok : Bool

def obsJson (o : Obs) : Json :=
  Json.mkObj [("ctx", o.ctx), ("r", rangeJson o.range),
    ("f", match o.filter with | some f => jsonStr f | none => .null),
    ("items", jsonStrs o.items), ("ok", o.ok)]

def parseObs (j : Json) : Obs :=
  { ctx := jstr j "ctx",
    range := match jget j "r" with | .arr a => some (asNat a[0]!, asNat a[1]!) | _ => none,
    filter := match jget j "f" with | .str s => some s.toList | _ => none,
    items := strArr (jget j "items"), ok := jbool j "ok" }

def modelObs (t : Table) (st : Settings) (line : Str) (ch : Nat) (trig : Str) : Obs :=
  let c := determineContext line ch trig
  if c = .date then ⟨"date", none, none, [], true⟩ else
  let res := HL.Completion.complete goLower t st line ch trig
  let labels := res.items.map (·.label)
  if labels.isEmpty then ⟨"none", none, none, [], true⟩
  else ⟨ctxName c, res.range, some res.query, labels, true⟩

/-! ### The oracle -/

structure Span where
  k : Ctx
  s : Nat
  e : Nat
  m : Nat   -- first cursor column judged against this span (s, or s+1 when the name touches a number)

def parseSpans (j : Json) : List Span :=
  match j with
  | .arr a => a.toList.filterMap fun e =>
      let k := match jstr e "k" with
        | "account" => some Ctx.account | "payee" => some Ctx.payee
        | "commodity" => some Ctx.commodity | "tag" => some Ctx.tagName | _ => none
      k.map fun k => ⟨k, jnat e "s", jnat e "e", if jhas e "m" then jnat e "m" else jnat e "s"⟩
  | _ => []

/-- A failed check: what failed and, when the failure lies inside the guard of an OPEN known
    finding, that finding's id.  C16 has no open finding: every failure is reported. -/
abbrev Fail := String × Option String

def judgeOne (t : Table) (fuzzy : Bool) (max : Nat) (line : Str) (ch : Nat) (spans : List Span)
    (o : Obs) : List Fail := Id.run do
  let mut fails : List Fail := []
  let spans := spans.filter fun sp => sp.m ≤ ch && ch ≤ sp.e
  if o.ctx == "none" then
    -- nothing offered: only ground truth can object (names that start with the typed fragment)
    return spans.flatMap fun sp =>
      let frag := fragOf line sp.s ch
      let missing := (namesOf t sp.k).filter fun n => prefixCI goLower frag n
      if missing.isEmpty || max == 0 then [] else
      [(s!"nothing offered although names start with the typed fragment (expected {ctxName sp.k} context)", none)]
  let some c := ctxOfName o.ctx | return [(s!"unexpected answer kind {o.ctx}", none)]
  if c == .date then
    return spans.map fun sp => (s!"context date where a {ctxName sp.k} is being typed", none)
  if !o.ok then fails := fails ++ [("items are not uniform (kind / range / filterText / newText / sortText / isIncomplete)", none)]
  if !judged c then return fails
  -- the fragment as the answer itself defines it: the text its edit range covers
  let mut frag : Str := []
  let mut fragOk := true
  match o.range with
  | none => fails := fails ++ [("no edit range", none)]; fragOk := false
  | some r =>
    if !editOK ch r then
      fails := fails ++ [(s!"edit range [{r.1},{r.2}] is not [s,cursor] with s <= cursor = {ch}", none)]
      fragOk := false
    else
      frag := fragOf line r.1 r.2
      if o.filter != some frag then
        fails := fails ++ [("the text in the edit range is not the query (filterText)", none)]
        fragOk := false
  if !boundedOK o.items max then fails := fails ++ [(s!"more than {max} items", none)]
  if fragOk then
    -- sound
    let bad := o.items.filter fun l => !((namesOf t c).contains l && matchesQ goLower fuzzy frag l)
    if !bad.isEmpty then
      fails := fails ++ [(s!"label {String.ofList bad.head!} is not a name of the context or does not match the fragment", none)]
    -- prefix-complete
    if !completeOK goLower t c frag o.items max then
      let missing := (namesOf t c).filter fun n => prefixCI goLower frag n && !o.items.contains n
      fails := fails ++ [(s!"name {String.ofList missing.head!} starts with the fragment but is not offered", none)]
    if !rankedOK t c frag o.items then fails := fails ++ [("empty fragment but counts increase along the list", none)]
  -- ground truth: the name the generator was typing
  for sp in spans do
    if sp.s ≤ ch && ch ≤ sp.e then
      let gfrag := fragOf line sp.s ch
      if c != sp.k then
        fails := fails ++ [(s!"context {ctxName c} where a {ctxName sp.k} is being typed", none)]
      else
        let mut gOk := true
        match o.range with
        | some r =>
          if r.1 != sp.s then
            gOk := false
            if !editOK ch r then pure ()  -- already reported above
            else fails := fails ++ [(s!"edit range starts at {r.1}, the typed name at {sp.s}", none)]
        | none => gOk := false
        if gOk then
          let bad := o.items.filter fun l => !matchesQ goLower fuzzy gfrag l
          if !bad.isEmpty then
            fails := fails ++ [(s!"label {String.ofList bad.head!} does not match the typed fragment", none)]
  return fails

def failsVerdict (fails : List Fail) : Bool × List String × String :=
  let ok := fails.isEmpty
  let ids := if fails.all (·.2.isSome) then (fails.filterMap (·.2)).eraseDups else []
  let why := match fails.find? (·.2.isNone) with
    | some f => f.1
    | none => (fails.head?.map (·.1)).getD ""
  (ok, ids, why)

/-- op c16.complete -/
def complete (j : Json) : Json := Id.run do
  let line := jstrL j "line"
  let t := parseTable (jget j "tab")
  let maxRaw := jint j "max"
  let st : Settings := ⟨maxRaw, jbool j "fuzzy"⟩
  let chs := (jarr j "chs").toList.map asNat
  let trs := (jarr j "trs").toList.map strOf
  let impl := (jarr j "impl").toList.map parseObs
  let spans := parseSpans (jget j "spans")
  let maxOK := decide (1 ≤ maxRaw ∧ maxRaw ≤ 200)
  let mut out : Array Json := #[]
  let mut fails : List Fail := []
  let mut domain := false
  let mut i := 0
  for ch in chs do
    let trig := trs.getD i []
    let o := (impl[i]?).getD ⟨"none", none, none, [], true⟩
    out := out.push (obsJson (modelObs t st line ch trig))
    -- the property's domain: a cursor on a character boundary of the line, an invoked request
    -- (the quantifier has no trigger characters; those are compared with the model only),
    -- maxResults 1..200
    let trigOK := trig.isEmpty
    if validCursor line ch && trigOK && maxOK then
      domain := true
      let fs := judgeOne t st.fuzzy (normMax maxRaw) line ch spans o
      fails := fails ++ fs.map fun f => (s!"ch {ch}: {f.1}", f.2)
    i := i + 1
  let (ok, ids, why) := failsVerdict fails
  return Json.mkObj [("model", Json.arr out), ("spec_ok", ok), ("in_domain", domain),
    ("known", Json.arr (ids.map Json.str).toArray), ("why", why)]

/-- op c16.pair: the same request under maxResults `max` < `max2`. -/
def pair (j : Json) : Json := Id.run do
  let line := jstrL j "line"
  let t := parseTable (jget j "tab")
  let m1 := jint j "max"
  let m2 := jint j "max2"
  let fuzzy := jbool j "fuzzy"
  let ch := ((jarr j "chs").toList.map asNat).headD 0
  let trig := ((jarr j "trs").toList.map strOf).headD []
  let impl := (jarr j "impl").toList.map parseObs
  let o1 := impl.getD 0 ⟨"none", none, none, [], true⟩
  let o2 := impl.getD 1 ⟨"none", none, none, [], true⟩
  let a := modelObs t ⟨m1, fuzzy⟩ line ch trig
  let b := modelObs t ⟨m2, fuzzy⟩ line ch trig
  let domain := validCursor line ch && decide (1 ≤ m1 ∧ m1 < m2 ∧ m2 ≤ 200)
  let ok := limitPrefixOK (normMax m1) o1.items o2.items
  return Json.mkObj [("model", Json.arr #[obsJson a, obsJson b]), ("spec_ok", !domain || ok),
    ("in_domain", domain), ("known", Json.arr #[]),
    ("why", "the list for the smaller maxResults is not a prefix of the list for the larger one"),
    ("nontrivial", domain && o2.items.length > o1.items.length)]

/-- op c16.range: context, query, edit range and account prefix at every position of a line. -/
def range (j : Json) : Json := Id.run do
  let line := jstrL j "line"
  let trs := (jarr j "trs").toList.map strOf
  let n := u16len line
  let mut out : Array Json := #[]
  let mut i := 0
  for tr in trs do
    for ch in List.range (n + 2) do
      let c := determineContext line ch tr
      let col := takeU16 line ch
      out := out.push (Json.mkObj [("ctx", ctxName c), ("r", rangeJson (editRange c line ch)),
        ("q", jsonStr (extractQuery c line col)), ("pre", jsonStr (extractAccountPrefix line col))])
      i := i + 1
  return Json.mkObj [("model", Json.arr out)]

def scoredJson (l : List Scored) : Json :=
  Json.arr (l.map fun s => Json.mkObj [("l", jsonStr s.label), ("s", s.score)]).toArray

def dblJson : Option Nat → Json
  | some k => (k : Nat)
  | none => (-1 : Int)

def score (j : Json) : Json :=
  let text := jstrL j "text"
  let pat := jstrL j "pat"
  Json.mkObj [("model", Json.mkObj [("score", fuzzyScore goLower text pat),
    ("seg", fuzzyScoreBySegments goLower text pat), ("amountEnd", u8len (text.take (findAmountEnd text))),
    ("dbl", match findDoublespace text with | some k => ((u8len (text.take k) : Nat) : Int) | none => (-1 : Int))])]

def filter (j : Json) : Json :=
  let labels := strArr (jget j "labels")
  let q := jstrL j "q"
  Json.mkObj [("model", Json.mkObj [("fs", scoredJson (filterAndScore goLower labels q (jbool j "fuzzy"))),
    ("pre", scoredJson (filterByPrefix goLower labels q))])]

def rank (j : Json) : Json :=
  let scored := (jarr j "scored").toList.map fun e => (⟨jstrL e "l", jnat e "s"⟩ : Scored)
  let counts : Option (List (Str × Nat)) := if jbool j "nil" then none else some (kvCounts (jget j "counts"))
  Json.mkObj [("model", jsonStrs ((rankExec counts scored).map (·.label)))]

def lowerOp (j : Json) : Json :=
  Json.mkObj [("model", jsonStr ((jstrL j "s").map goLower))]

def maxOp (j : Json) : Json :=
  Json.mkObj [("model", normMax (jint j "n"))]

def handle (op : String) (j : Json) : Option Json :=
  match op with
  | "c16.complete" => some (complete j)
  | "c16.pair" => some (pair j)
  | "c16.range" => some (range j)
  | "c16.score" => some (score j)
  | "c16.filter" => some (filter j)
  | "c16.rank" => some (rank j)
  | "c16.lower" => some (lowerOp j)
  | "c16.max" => some (maxOp j)
  | _ => none

end HL.Driver.C16
