import HL.Driver.AstJson
import HL.Spec.G
open Lean
namespace HL.Driver
open HL

def ratOfStr (s : String) : Rat :=
  match s.splitOn "/" with
  | [a, b] => mkRat (a.toInt?.getD 0) (b.toNat?.getD 1)
  | [a] => ((a.toInt?.getD 0 : Int) : Rat)
  | _ => 0

def gAmountOf (j : Json) : G.Amount :=
  let a : G.Amount := ⟨ratOfStr (jstr j "q"), jhex j "com", jnat j "side", jbool j "quoted",
    jstr j "cls", jbool j "sp", jnat j "signpos", jstr j "num"⟩
  a
def gTagOf (j : Json) : G.Tag := ⟨jhex j "n", jhex j "v"⟩
def tripleOf (j : Json) : Int × Int × Int := match j with
  | .arr a => ((fromJson? (α := Int) a[0]!).toOption.getD 0, (fromJson? (α := Int) a[1]!).toOption.getD 0,
               (fromJson? (α := Int) a[2]!).toOption.getD 0)
  | _ => (0, 0, 0)
def gPostingOf (j : Json) : G.Posting := {
  st := jnat j "st", virt := jnat j "virt", acc := jhex j "acc", amt := optOf gAmountOf (jget j "amt"),
  cost := optOf gAmountOf (jget j "cost"), total := jbool j "total", ba := optOf gAmountOf (jget j "ba"),
  strict := jbool j "strict", cmt := jhex j "cmt", hascmt := jbool j "hascmt",
  tags := arrOf gTagOf (jget j "tags"), line := jnat j "line" }
def gEntryOf (j : Json) : G.Entry := {
  kind := jstr j "k", first := jnat j "first", last := jnat j "last",
  date := tripleOf (jget j "date"), date2 := optOf tripleOf (jget j "date2"), st := jnat j "st",
  code := jhex j "code", desc := jhex j "desc", payee := jhex j "payee", note := jhex j "note",
  pipe := jbool j "pipe", cmt := jhex j "cmt", hascmt := jbool j "hascmt", tags := arrOf gTagOf (jget j "tags"),
  ps := arrOf gPostingOf (jget j "ps"), acc := jhex j "acc", sym := jhex j "sym", fmt := jhex j "fmt",
  path := jhex j "path", price := optOf gAmountOf (jget j "price"), year := jint j "year", text := jhex j "text" }
def gJournalOf (j : Json) : G.Journal :=
  ⟨arrOf gEntryOf (jget j "entries"), jbool j "crlf", arrOf asStr (jget j "feat")⟩

end HL.Driver
