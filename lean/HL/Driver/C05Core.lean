import HL.Driver.C03Core
import HL.Driver.C05
import HL.Spec.GCoreLayout
import HL.Spec.EraseRanges
import HL.Model.Pipeline
open Lean
/-!
  Op `c05.gcore` — the stream behind `HL.Props.C04.format_core`, `C04_preserved_core`,
  `C05_idempotent_core`, `C05_aligned_core` (core grammar `GCore`, no commodity formats).

  The harness draws a core journal `g` and options, has the compiled driver print the journal
  (`c03.gcore.print`, i.e. `GCore.print`), formats that text with the REAL `server.formatText`,
  applies the edits, parses the result with the real parser, formats it again and applies again.

    impl   = { text: the text after the first run, again: … after the second run }
    model  = { text: GCore.canon o g,             again: GCore.canon o g }     (theorems
             `formatRun_core`, `C05_idempotent_core`; the driver re-checks both statements on the
             case with the compiled models — a disagreement is a machinery error, not a verdict)
    spec_ok (judged on what the real code returned, without `canon`):
      C04  the formatted text is read back by the real parser without error, to the tree of the
           journal up to positions (`Erase.journal`)
      C05  the second run changes nothing; with alignment on every amount starts at one column,
           at least two blanks behind the longest account; every posting line starts with the
           configured indent.
-/
namespace HL.Driver.C05Core
open HL HL.Driver HL.Fmt HL.EditSpec HL.FmtText

def str (b : Bytes) : String := String.fromUTF8! (ByteArray.mk b.toArray)

def gcore (j : Json) : Json :=
  let g := HL.Driver.C03Core.gcJournalOf (jget j "g")
  let wf := GCore.WF g
  let o := HL.Driver.C05.optsOf (jget j "opts")
  let prop := jstr j "prop"
  let text := jhex j "text"
  let canon := GCore.canon o g
  let model := Json.mkObj [("text", hx canon), ("again", hx canon)]
  -- the theorems on this case, with the compiled models
  let run (doc : Bytes) : Option Bytes :=
    let r := HL.Pipeline.parseText Classes.go doc
    applyEdits doc (formatText r.1 r.2 doc none o)
  let thm := !wf || (run text == some canon && run canon == some canon)
  if text != GCore.print g then
    Json.mkObj [("error", "c05.gcore: the text of the case is not GCore.print of its journal")]
  else if !thm then
    Json.mkObj [("error", "the compiled model disagrees with theorem formatRun_core / C05_idempotent_core on a well-formed GCore journal")]
  else
  let impl := jget j "impl"
  let implE := arrOf HL.Driver.C05.editOf (jget j "edits")
  let second := arrOf HL.Driver.C05.editOf (jget j "second")
  let verdict : Bool × String := Id.run do
    if !jhas impl "text" then return (false, "the edits of the first run cannot be applied (overlap or start > end)")
    let doc2 := jhex impl "text"
    if applyEdits text implE != some doc2 then
      return (false, "FRAMEWORK: reference appliers of harness and driver disagree (first run)")
    let tree2 := journalOf (jget j "tree2")
    let errs2 := arrOf perrOf (jget j "errs2")
    if prop != "C05" then
      if !errs2.isEmpty then
        return (false, s!"C04 the formatted text has a syntax error: {str errs2.head!.msg} at line {errs2.head!.pos.line}")
      if Erase.journal tree2 != Erase.journal (GCore.expected g) then
        return (false, "C04 the formatted text is read back as a different journal")
    if prop != "C04" then
      if !jhas impl "again" then return (false, "C05 the edits of the second run cannot be applied")
      let doc3 := jhex impl "again"
      if applyEdits doc2 second != some doc3 then
        return (false, "FRAMEWORK: reference appliers of harness and driver disagree (second run)")
      if doc3 != doc2 then return (false, "C05 not idempotent: formatting the formatted text changes it")
      let ind := GCore.canonIndent o
      let ps2 := allPostings tree2
      let lines2 := splitLines doc2
      let indentOk := ps2.all fun p =>
        let l := lines2.getD (p.range.start.line - 1) []
        l.take ind == spaces ind && (l.drop ind).head? != some 32 && (l.drop ind).head? != some 9
      if !indentOk then return (false, "C05 a posting line does not start with exactly the configured indent")
      if o.alignAmounts then
        let cols := ps2.filterMap fun p => p.amount.map fun a => a.range.start.col - 1
        match cols with
        | [] => pure ()
        | c :: cs =>
          if !cs.all (· == c) then return (false, "C05 amounts do not start in one common column")
          if c < ind + GCore.widest g + 2 then
            return (false, "C05 amount column is less than two blanks after the longest account")
    return (true, "")
  Json.mkObj [("model", model), ("spec_ok", !wf || verdict.1), ("in_domain", wf), ("known", Json.arr #[]),
    ("why", verdict.2), ("nontrivial", wf && !(g.flatMap (·.postings)).isEmpty)]

def handle (op : String) (j : Json) : Option Json :=
  match op with
  | "c05.gcore" => some (gcore j)
  | _ => none

end HL.Driver.C05Core
