import HL.Driver.Util
import HL.Driver.AstJson
import HL.Model.Undeclared
import HL.Spec.UndeclaredSpec
open Lean HL HL.Ast HL.Undeclared

/-! Driver ops for C18 (see harness/c18.go).  Diagnostics are compared as multisets: both sides
    sort them by (range, code, message). -/
namespace HL.Driver.C18

def natListLt : List Nat → List Nat → Bool
  | [], [] => false
  | [], _ => true
  | _, [] => false
  | a :: as, b :: bs => if a < b then true else if b < a then false else natListLt as bs

structure Row where
  r : List Nat
  code : String
  msg : String     -- hex
  sev : Nat
deriving BEq, Inhabited

def Row.lt (a b : Row) : Bool :=
  if natListLt a.r b.r then true else if natListLt b.r a.r then false
  else if a.code < b.code then true else if b.code < a.code then false
  else a.msg < b.msg

def sortRows (l : List Row) : List Row := (l.toArray.qsort Row.lt).toList

def Row.json (x : Row) : Json :=
  Json.mkObj [("code", x.code), ("r", natArr x.r), ("msg", x.msg), ("sev", x.sev)]

def rowsJson (l : List Row) : Json := Json.arr ((sortRows l).toArray.map Row.json)

def rowOfJson (j : Json) : Row :=
  ⟨(jarr j "r").toList.map asNat, jstr j "code", jstr j "msg", jnat j "sev"⟩

def rowOfDiag (d : Diag) : Row :=
  ⟨[d.range.start.line, d.range.start.col, d.range.start.off, d.range.stop.line, d.range.stop.col,
    d.range.stop.off], d.code.name, hex d.msg, d.sev⟩

def rowOfPub (d : PubDiag) : Row := ⟨[d.sl, d.sc, d.el, d.ec], d.code.name, hex d.msg, d.sev⟩

/-- A JSON list of hex strings, `null` = no map at all (behaves like the empty one). -/
def hexList (j : Json) : List Bytes := match j with
  | .arr a => a.toList.map unhx
  | _ => []

/-- Rows agree as multisets and each message names its subject: the oracle does not insist on the
    wording of a message, only that the quoted subject is the account / commodity in question. -/
def isInfix (needle hay : List UInt8) : Bool :=
  match hay with
  | [] => needle.isEmpty
  | _ :: t => needle.isPrefixOf hay || isInfix needle t

structure Expect where
  r : List Nat
  code : String
  sev : Nat
  subject : Bytes
deriving Inhabited

def Expect.lt (a b : Expect) : Bool :=
  if natListLt a.r b.r then true else if natListLt b.r a.r then false
  else if a.code < b.code then true else if b.code < a.code then false
  else hex a.subject < hex b.subject

/-- Oracle: the implementation's rows against the spec's expectations, as multisets.  Both lists
    are sorted by (range, code, ·); inside a tie on (range, code) — only possible for several
    warnings on one and the same token — the order is by message resp. subject, which agree
    because every message embeds its subject at a fixed place. -/
def judge (impl : List Row) (exp : List Expect) : Bool × String :=
  let impl := sortRows impl
  let exp := (exp.toArray.qsort Expect.lt).toList
  if impl.length != exp.length then
    (false, s!"{impl.length} warnings published, {exp.length} expected")
  else
    match (impl.zip exp).find? (fun (a, e) =>
        !(a.r == e.r && a.code == e.code && a.sev == e.sev && isInfix e.subject (unhex a.msg))) with
    | some (a, e) => (false, s!"published {a.code} at {a.r} (message hex {a.msg}) where {e.code} for subject hex {hex e.subject} at {e.r} is expected")
    | none => (true, "")

open HL.Spec.Undeclared in
def expectOfWarning (w : Warning) : Expect :=
  ⟨[w.range.start.line, w.range.start.col, w.range.start.off, w.range.stop.line, w.range.stop.col,
    w.range.stop.off],
   (match w.kind with | .account => "UNDECLARED_ACCOUNT" | .commodity => "UNDECLARED_COMMODITY"),
   1, w.subject⟩

open HL.Spec.Undeclared in
def expectOfPublished (w : Warning) : Expect :=
  ⟨[u32pred w.range.start.line, u32pred w.range.start.col, u32pred w.range.stop.line,
    u32pred w.range.stop.col],
   (match w.kind with | .account => "UNDECLARED_ACCOUNT" | .commodity => "UNDECLARED_COMMODITY"),
   2, w.subject⟩

/-- ops c18.analyze (tree from the parser) and c18.rule (hand-built tree with arbitrary bytes). -/
def analyze (j : Json) : Json :=
  let tree := journalOf (jget j "tree")
  let extAcc := hexList (jget j "extAcc")
  let extCom := hexList (jget j "extCom")
  let model := analyzeInternal goLower tree extAcc extCom
  let impl := (jarr j "impl").toList.map rowOfJson
  let dAcc := HL.Spec.Undeclared.declaredAccountsOf tree ++ extAcc
  let dCom := HL.Spec.Undeclared.declaredCommoditiesOf tree ++ extCom
  let exp := (HL.Spec.Undeclared.journalWarnings goLower dAcc dCom tree).map expectOfWarning
  let (ok, why) := judge impl exp
  Json.mkObj [("model", rowsJson (model.map rowOfDiag)), ("spec_ok", ok), ("in_domain", true),
    ("known", Json.arr #[]), ("why", why),
    ("nontrivial", !tree.transactions.isEmpty && (!dAcc.isEmpty || !dCom.isEmpty))]

def natList (j : Json) : List Nat := match j with
  | .arr a => a.toList.map asNat
  | _ => []

def server (j : Json) : Json :=
  let files := (jarr j "files").toList.map fun f => journalOf (jget f "tree")
  let cur := jnat j "cur"
  let curTree := natList (jget j "curTree")
  let wsTree : Option (List Nat) := match jget j "wsTree" with
    | .arr a => some (a.toList.map asNat)
    | _ => none
  let set := natList (jget j "set")
  let s : Settings := ⟨set[0]! != 0, set[1]! != 0, set[2]! != 0⟩
  let model := serverAnalyze goLower files cur curTree wsTree s
  let impl := (jarr j "impl").toList.map rowOfJson
  let w : HL.Spec.Undeclared.Workspace := ⟨files, cur, curTree, wsTree⟩
  let sw : HL.Spec.Undeclared.Switches := ⟨s.undeclaredAccounts, s.undeclaredCommodities⟩
  let exp := (HL.Spec.Undeclared.published goLower w sw).map expectOfPublished
  let (ok, why) := judge impl exp
  let inDomain := cur < files.length && curTree.all (· < files.length) &&
    (wsTree.getD []).all (· < files.length)
  Json.mkObj [("model", rowsJson (model.map rowOfPub)), ("spec_ok", !inDomain || ok),
    ("in_domain", inDomain), ("known", Json.arr #[]), ("why", why),
    ("nontrivial", inDomain && (!(HL.Spec.Undeclared.declaredAccounts w).isEmpty ||
      !(HL.Spec.Undeclared.declaredCommodities w).isEmpty))]

/-- Which of the six categories the lower-cased first segment of `name` is (index), or 6. -/
def categoryIndex (name : Bytes) : Nat :=
  let pfx := (goLower name).takeWhile (· != colon)
  (predefinedAccountTypes.findIdx? (· == pfx)).getD 6

def lowerOp (j : Json) : Json :=
  let probes := (jarr j "probes").toList.map unhx
  Json.mkObj [("model", Json.mkObj [("runes", natArr nonAsciiToAscii),
    ("cats", natArr (probes.map categoryIndex))])]

def handle (op : String) (j : Json) : Option Json :=
  match op with
  | "c18.analyze" => some (analyze j)
  | "c18.rule" => some (analyze j)
  | "c18.server" => some (server j)
  | "c18.hist" => some (server j)
  | "c18.lower" => some (lowerOp j)
  | _ => none

end HL.Driver.C18
