import HL.Driver.Util
import HL.Model.MapOrder
import HL.Model.Completion
open Lean HL.MapOrder

/-
  Driver for property C15, op `c15.repeat`:
    {site, kind, in, impl = the SET (sorted list) of distinct serialised outputs the real code
     produced over the in-process / fresh-server / fresh-process repetitions}
  For `kind`
    model-set  = the pinned model's outputs over ALL iteration orders of the maps in `in`
                 (enumerated with `perms`; for the completion ranking: every ranking `sort.Slice`
                 may return for some order);
    fixed      = the repaired model's single output.
  Answer:
    model   = impl when impl ⊆ model-set (correspondence holds), else [fixed];
    spec_ok = impl = [fixed]   (the response is reproducible and is the specified one);
    known   = the known-finding ids whose guard matches `in` (only when impl ⊆ model-set).
-/
namespace HL.Driver.C15

def strList (j : Json) : List String := match j with
  | .arr a => a.toList.map asStr
  | _ => []

def arrOf (j : Json) : List Json := match j with
  | .arr a => a.toList
  | _ => []

def nth (j : Json) (i : Nat) : Json := match j with
  | .arr a => a[i]?.getD .null
  | _ => .null

/-- `[[k, v], …]` -/
def entriesOf {ν : Type} (f : Json → ν) (j : Json) : Entries String ν :=
  (arrOf j).map fun e => (asStr (nth e 0), f (nth e 1))

def jstrs (l : List String) : Json := Json.arr (l.toArray.map Json.str)

def jeq (a b : Json) : Bool := a.compress == b.compress

def dedup (l : List String) : List String := l.foldl appendNew []

def lookupD {ν : Type} (d : ν) (l : Entries String ν) (k : String) : ν :=
  match l.find? (·.1 == k) with
  | some e => e.2
  | none => d

structure Verdict where
  /-- is this output one the pinned model can produce for some iteration order? -/
  allowed : Json → Bool
  fixed : Json
  /-- known-finding ids explaining a deviation of the observed set of outputs from `{fixed}` -/
  known : List Json → List String
  nontrivial : Bool := true

def templatesJson (keys : List String) (m : String → Option String) : Json :=
  Json.arr ((sortStrings (dedup keys)).filterMap (fun k => (m k).map fun t => jstrs [k, t])).toArray

def optJson (o : Option String) : Json := match o with
  | some t => jstrs [t]
  | none => jstrs []

/-- out is `take max` of some ranking of `items` -/
def isTruncRanking (items : List Scored) (max : Nat) (out : List String) : Bool :=
  let find (l : String) := items.find? (·.label == l)
  let outS := out.filterMap find
  let n := if max > 0 && items.length > max then max else items.length
  let rest := items.filter (fun it => !out.contains it.label)
  outS.length == out.length && out.length == n && (dedup out).length == out.length &&
    (List.range (outS.length - 1)).all (fun i => match outS[i]?, outS[i+1]? with
      | some a, some b => rankLe a b
      | _, _ => true) &&
    (match outS.getLast? with
     | some last => rest.all (fun it => rankLe last it)
     | none => rest.isEmpty)

/-- `getAccountsForPrefix`: the accounts that start with the typed parent in any letter case
    (`HL.Completion.accountsForPrefix`), all of them when there is none. -/
def candidatesFor (all : List String) (pfx : String) : List String :=
  if pfx == "" then all else
  let lowerPfx := pfx.toList.map HL.Completion.goLower
  let byPrefix := all.filter (fun a => lowerPfx.isPrefixOf (a.toList.map HL.Completion.goLower))
  if byPrefix.isEmpty then all else byPrefix

def verdict (kind : String) (i : Json) : Verdict :=
  match kind with
  | "balance" =>
    let txs := (arrOf (jget i "txs")).map (entriesOf asStr)
    { allowed := fun out =>
        let o := strList out
        o.length == txs.length && (List.zip o txs).all fun (m, σ) => ((perms σ).map balanceMessageIn).contains m
      fixed := jstrs (txs.map balanceMessage)
      known := fun _ => if txs.any (·.length ≥ 2) then ["unbalanced-message-order"] else []
      nontrivial := txs.any (·.length ≥ 2) }
  | "collect" =>
    let primary := strList (jget i "primary")
    let files := entriesOf strList (jget i "files")
    { allowed := fun out => ((perms files).map (collectFromResolvedIn primary)).contains (strList out)
      fixed := jstrs (collectFromResolved primary files)
      known := fun _ => if files.length ≥ 2 then ["collectors-file-order"] else []
      nontrivial := files.length ≥ 2 }
  | "counts" =>
    let primary := entriesOf asNat (jget i "primary")
    let files := entriesOf (entriesOf asNat) (jget i "files")
    let m := mergeCounts primary files
    let ks := sortStrings (dedup (primary.map (·.1) ++ files.flatMap (fun f => f.2.map (·.1))))
    let fixed := Json.arr (ks.map fun k => Json.arr #[Json.str k, toJson (m k)]).toArray
    { allowed := fun out => jeq out fixed, fixed := fixed, known := fun _ => [] }
  | "completion" =>
    let primary := strList (jget i "primary")
    let files := entriesOf strList (jget i "files")
    let count := mergeCounts (entriesOf asNat (jget i "pcounts")) (entriesOf (entriesOf asNat) (jget i "fcounts"))
    let scores := entriesOf asNat (jget i "scores")
    let score := lookupD 0 scores
    let max := jnat i "max"
    let pfx := jstr i "prefix"
    let labelsFor (all : List String) := completionLabels (candidatesFor all pfx) score count max
    let fixedL := labelsFor (collectFromResolved primary files)
    let items := scoredOf (candidatesFor (collectFromResolved primary files) pfx) score count
    let stableOfSomeOrder (o : List String) := ((perms files).map (fun π => labelsFor (collectFromResolvedIn primary π))).contains o
    { allowed := fun out => isTruncRanking items max (strList out)
      fixed := jstrs fixedL
      known := fun impl =>
        let os := impl.map strList
        -- run-to-run variation can only come from the order of resolved.Files; an order that no
        -- stable sort of any file order explains comes from sort.Slice's freedom among ties
        let a := if files.length ≥ 2 && (os.length > 1 || os.any (fun o => o != fixedL && stableOfSomeOrder o))
                 then ["collectors-file-order"] else []
        let b := if os.any (fun o => !stableOfSomeOrder o) then ["completion-unstable-sort"] else []
        a ++ b
      nontrivial := files.length ≥ 2 && items.length ≥ 2 }
  | "concat" =>
    let docs := entriesOf strList (jget i "docs")
    { allowed := fun out => ((perms docs).map wsSymbolsIn).contains (strList out)
      fixed := jstrs (wsSymbols docs)
      known := fun _ => if (docs.filter (fun d => !d.2.isEmpty)).length ≥ 2 then ["workspace-symbol-order"] else []
      nontrivial := (docs.filter (fun d => !d.2.isEmpty)).length ≥ 2 }
  | "templates" =>
    let order := (entriesOf (entriesOf asStr) (jget i "order")).map (·.2)
    let primary := entriesOf asStr (jget i "primary")
    let ks := primary.map (·.1) ++ order.flatMap (fun f => f.map (·.1))
    let fixed := templatesJson ks (templatesFromResolved order primary)
    { allowed := fun out => jeq out fixed, fixed := fixed, known := fun _ => [] }
  | "lastwins" =>
    let root := entriesOf asStr (jget i "root")
    let rootName := jstr i "rootName"
    let files := entriesOf (entriesOf asStr) (jget i "files")
    let ks := root.map (·.1) ++ files.flatMap (fun f => f.2.map (·.1))
    -- repaired (upstream restorePayeeTemplate): smallest path that has a template, root included
    let fixed := templatesJson ks (indexTemplates ((rootName, root) :: files))
    { allowed := fun out => jeq out fixed ||
        -- pinned: root first, included files in map order, a later file overwrites
        (perms files).any fun π => jeq out (templatesJson ks (indexTemplatesIn root π))
      fixed := fixed
      known := fun _ => if files.length ≥ 2 then ["workspace-index-order"] else []
      nontrivial := files.length ≥ 2 }
  | "txfiles" =>
    let root := (asStr (nth (jget i "root") 0), strList (nth (jget i "root") 1))
    let files := entriesOf strList (jget i "files")
    let ks := sortStrings (dedup (root.2 ++ files.flatMap (·.2)))
    let render (f : String → List String) : Json := Json.arr (ks.map fun k => Json.arr #[Json.str k, jstrs (f k)]).toArray
    { allowed := fun out => (perms files).any fun π => jeq out (render (indexTxFilesIn root π))
      fixed := render (indexTxFiles root files)
      known := fun _ => if files.length ≥ 2 then ["workspace-index-order"] else []
      nontrivial := files.length ≥ 2 }
  | "fileorder" =>
    let kept := (entriesOf (fun _ => ()) (jget i "kept")).map (·.1)
    let missing := (entriesOf (fun _ => ()) (jget i "missing")).map (·.1)
    { allowed := fun out => ((perms missing).map (addMissingIn kept)).contains (strList out)
      fixed := jstrs (addMissing kept missing)
      known := fun _ => if missing.length ≥ 2 then ["workspace-fileorder"] else []
      nontrivial := missing.length ≥ 2 }
  | "fotemplate" =>
    let kept := entriesOf (entriesOf asStr) (jget i "kept")
    let missing := entriesOf (entriesOf asStr) (jget i "missing")
    let primary := entriesOf asStr (jget i "primary")
    let payee := jstr i "payee"
    { allowed := fun out => (perms missing).any fun π => jeq out (optJson (templatesAfterAddIn kept π primary payee))
      fixed := optJson (templatesAfterAdd kept missing primary payee)
      known := fun _ => if missing.length ≥ 2 then ["workspace-fileorder"] else []
      nontrivial := (missing.filter (fun f => f.2.any (·.1 == payee))).length ≥ 2 }
  | "firstpath" =>
    let docs := strList (jget i "docs")
    let withPath := docs.filter (· != "")
    let render (p : String) : Json := if p == "" then Json.str "ERR no document open" else Json.str p
    { allowed := fun out => if withPath.isEmpty then jeq out (render "") else withPath.contains (asStr out)
      fixed := render (minPath docs)
      known := fun _ => if withPath.length ≥ 2 then ["execute-command-document"] else []
      nontrivial := withPath.length ≥ 2 }
  | _ => -- "opaque": claimed order-independent, no model of the payload: the set must be a singleton
    { allowed := fun _ => false, fixed := .null, known := fun _ => [] }

def repeatOp (j : Json) : Json :=
  let kind := jstr j "kind"
  let impl := (jarr j "impl").toList
  if kind == "opaque" then
    let ok := impl.length == 1
    Json.mkObj [("model", Json.arr (impl.take 1).toArray), ("spec_ok", ok), ("in_domain", true),
      ("known", Json.arr #[]), ("why", if ok then "" else s!"site {jstr j "site"}: {impl.length} different responses for one workspace state"),
      ("nontrivial", true)]
  else
    let v := verdict kind (jget j "in")
    let corr := !impl.isEmpty && impl.all v.allowed
    let specOk := impl.length == 1 && impl.all (jeq v.fixed)
    -- only OPEN known findings excuse a failure (field `open`, read by the harness from
    -- known_findings.json); a regression of a fixed one is reported with its input
    let isOpen (id : String) : Bool := !jhas j "open" || (strList (jget j "open")).contains id
    let ids := if corr && !specOk then dedup (v.known impl) else []
    let known := if ids.all isOpen then ids else []
    Json.mkObj [("model", if corr then Json.arr impl.toArray else Json.arr #[v.fixed]), ("spec_ok", specOk),
      ("in_domain", true), ("known", jstrs known),
      ("why", if specOk then "" else s!"site {jstr j "site"}: {impl.length} distinct response(s), expected exactly {v.fixed.compress}"),
      ("nontrivial", v.nontrivial)]

def handle (op : String) (j : Json) : Option Json :=
  match op with
  | "c15.repeat" => some (repeatOp j)
  | _ => none

end HL.Driver.C15
