import HL.Driver.Util
import HL.Model.Workspace
import HL.Spec.Rebuild
open Lean HL.Index HL.Workspace

namespace HL.Driver.C12

/-! JSON codecs -/

def arrOf (j : Json) : List Json := match j with | .arr a => a.toList | _ => []
def strOf (j : Json) : String := asStr j
def pairKN (j : Json) : String × Nat := match arrOf j with
  | [k, n] => (strOf k, asNat n)
  | _ => ("", 0)
def pairSS (j : Json) : String × String := match arrOf j with
  | [k, n] => (strOf k, strOf n)
  | _ => ("", "")

def parseContrib (j : Json) : Contrib :=
  { ac := (jarr j "ac").toList.map pairKN
    pc := (jarr j "pc").toList.map pairKN
    cc := (jarr j "cc").toList.map pairKN
    tc := (jarr j "tc").toList.map pairKN
    tvc := (jarr j "tvc").toList.map fun e => match arrOf e with
      | [k, vs] => (strOf k, (arrOf vs).map pairKN)
      | _ => ("", [])
    txs := (jarr j "tx").toList.map pairSS
    dates := (jarr j "dt").toList.map strOf
    pts := (jarr j "pt").toList.map pairSS
    incs := (jarr j "inc").toList.map strOf
    declA := (jarr j "da").toList.map strOf
    cds := (jarr j "cd").toList.map fun e => match arrOf e with
      | [s, r, f] => { sym := strOf s, raw := strOf r, fmt := strOf f }
      | _ => default }

def jstrs (l : List String) : Json := Json.arr (l.toArray.map Json.str)

/-- sort an association list by key (canonical output of a Go map). -/
def sortKV {α : Type} (m : AList α) : AList α :=
  (m.toArray.qsort (fun a b => a.1 < b.1)).toList

def jKN (m : AList Nat) : Json :=
  Json.arr ((sortKV m).toArray.map fun e => Json.arr #[Json.str e.1, toJson e.2])
def jKS (m : AList String) : Json :=
  Json.arr ((sortKV m).toArray.map fun e => Json.arr #[Json.str e.1, Json.str e.2])
def jKL (m : AList (List String)) : Json :=
  Json.arr ((sortKV m).toArray.map fun e => Json.arr #[Json.str e.1, jstrs e.2])

def jEntries (es : List Entry) : Json :=
  let l := (es.map fun e => (e.file ++ "\x00" ++ e.data, e)).toArray.qsort (fun a b => a.1 < b.1)
  Json.arr (l.map fun e => Json.arr #[Json.str e.2.file, Json.str e.2.data])

def optStrs (o : Option (List String)) : Json := match o with
  | none => Json.null
  | some l => jstrs (l.toArray.qsort (· < ·)).toList

def viewJson (v : View) (pts : AList String) : Json :=
  Json.mkObj [
    ("members", jstrs v.members),
    ("accounts", jstrs v.idx.accounts.all),
    ("byPrefix", jKL v.idx.accounts.byPrefix),
    ("payees", jstrs v.idx.payees),
    ("commodities", jstrs v.idx.commodities),
    ("tags", jstrs v.idx.tags),
    ("tagValues", jKL v.idx.tagValues),
    ("dates", jstrs v.idx.dates),
    ("ac", jKN v.idx.ac), ("pc", jKN v.idx.pc), ("cc", jKN v.idx.cc), ("tc", jKN v.idx.tc),
    ("tvc", Json.arr ((sortKV v.idx.tvc).toArray.map fun e => Json.arr #[Json.str e.1, jKN e.2])),
    ("tx", Json.arr ((sortKV v.idx.txs).toArray.map fun e => Json.arr #[Json.str e.1, jEntries e.2])),
    ("pt", jKS pts),
    ("formats", match v.formats with | none => Json.null | some f => jKS f),
    ("declC", optStrs v.comms),
    ("declA", optStrs v.accts)]

/-- Payee templates of the implementation's view. -/
def implPts (j : Json) : AList String := (jarr j "pt").toList.map pairSS

/-- Which file's template survives for a payee that several indexed files have depends on
    Go's map iteration order (Initialize, addMissingReachableLocked).  Presence or absence of
    the key never does.  Where the indexed files disagree on a payee's template, the model's
    choice is replaced by the implementation's, provided that is one of the candidates. -/
def reconcilePts (idx : WIndex) (impl : AList String) : AList String :=
  idx.pts.map fun (p, t) =>
    let cands := (idx.files.filterMap fun e => e.2.c.pts.get p).eraseDups
    if cands.length ≥ 2 then
      match impl.get p with
      | some t' => if t' ∈ cands then (p, t') else (p, t)
      | none => (p, t)
    else (p, t)

def viewOut (w : WS) (implView : Json) : Json × WS :=
  let (v, w) := observe w
  (viewJson v (reconcilePts v.idx (implPts implView)), w)

def parseCfg (j : Json) : Cfg :=
  let c := jget j "cfg"
  { fixT := jbool c "fixT", fixG := jbool c "fixG", limit := jnat j "limit" }

def parseFiles (j : Json) (k : String) : List (String × Contrib) :=
  (jarr j k).toList.map fun f => (jstr f "n", parseContrib (jget f "c"))

def run (j : Json) : Json := Id.run do
  let cfg := parseCfg j
  let files := parseFiles j "files"
  let ups := parseFiles j "ups"
  let impl := jget j "impl"
  let fs0 : FS := files
  let mut fs := fs0
  let w0 := init cfg [] fs0
  let (v0, w0') := viewOut w0 (jget impl "init")
  let mut w := w0'
  let freshOf := fun (fs : FS) (iv : Json) =>
    let wf := init cfg [] fs
    let (vj, _) := viewOut wf iv
    vj.setObjVal! "root" (Json.str wf.root)
  let mut steps : Array Json := #[]
  let implSteps := jarr impl "steps"
  let mut i := 0
  for (n, c) in ups do
    let is := implSteps[i]?.getD Json.null
    let σ1 := (jarr is "midOrder").toList.map strOf
    let σ2 := (jarr is "postOrder").toList.map strOf
    let w1 := updateFile cfg σ1 fs w n c
    let (mid, w1') := viewOut w1 (jget is "mid")
    fs := fs.set n c
    let w2 := updateFile cfg σ2 fs w1' n c
    let (post, w2') := viewOut w2 (jget is "post")
    w := w2'
    steps := steps.push (Json.mkObj [("mid", mid), ("midOrder", jstrs w1.order),
      ("post", post), ("postOrder", jstrs w2.order), ("fresh", freshOf fs (jget is "fresh"))])
    i := i + 1
  let model := Json.mkObj [("root", Json.str w0.root), ("init", v0), ("order0", jstrs w0.order),
    ("fresh0", freshOf fs0 (jget impl "fresh0")), ("steps", Json.arr steps)]
  return Json.mkObj [("model", model), ("spec_ok", true), ("in_domain", true),
    ("known", Json.arr #[]), ("why", "")]

def contrib (j : Json) : Json :=
  let n := jstr j "n"
  let incs := (jarr j "inc").toList.map strOf
  Json.mkObj [("model", jstrs (resolveIncl n incs)), ("in_domain", true), ("nontrivial", false)]

def handle (op : String) (j : Json) : Option Json :=
  match op with
  | "c12.run" => some (run j)
  | "c12.contrib" => some (contrib j)
  | _ => none

end HL.Driver.C12
