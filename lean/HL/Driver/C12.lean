import HL.Driver.Util
import HL.Model.Workspace
import HL.Spec.Rebuild
open Lean HL.Index HL.Workspace

namespace HL.Driver.C12

/-! JSON codecs -/

def arrOf (j : Json) : List Json := match j with | .arr a => a.toList | _ => []
def strOf (j : Json) : String := asStr j
def pairKN (j : Json) : String × Nat := match arrOf j with
  | [k, n] => (strOf k, asNat n)
  | _ => ("", 0)
def pairSS (j : Json) : String × String := match arrOf j with
  | [k, n] => (strOf k, strOf n)
  | _ => ("", "")

def parseContrib (j : Json) : Contrib :=
  { ac := (jarr j "ac").toList.map pairKN
    pc := (jarr j "pc").toList.map pairKN
    cc := (jarr j "cc").toList.map pairKN
    tc := (jarr j "tc").toList.map pairKN
    tvc := (jarr j "tvc").toList.map fun e => match arrOf e with
      | [k, vs] => (strOf k, (arrOf vs).map pairKN)
      | _ => ("", [])
    txs := (jarr j "tx").toList.map pairSS
    dates := (jarr j "dt").toList.map strOf
    pts := (jarr j "pt").toList.map pairSS
    incs := (jarr j "inc").toList.map strOf
    declA := (jarr j "da").toList.map strOf
    cds := (jarr j "cd").toList.map fun e => match arrOf e with
      | [s, r, f] => { sym := strOf s, raw := strOf r, fmt := strOf f }
      | _ => default }

def jstrs (l : List String) : Json := Json.arr (l.toArray.map Json.str)

/-- sort an association list by key (canonical output of a Go map). -/
def sortKV {α : Type} (m : AList α) : AList α :=
  (m.toArray.qsort (fun a b => a.1 < b.1)).toList

def jKN (m : AList Nat) : Json :=
  Json.arr ((sortKV m).toArray.map fun e => Json.arr #[Json.str e.1, toJson e.2])
def jKS (m : AList String) : Json :=
  Json.arr ((sortKV m).toArray.map fun e => Json.arr #[Json.str e.1, Json.str e.2])
def jKL (m : AList (List String)) : Json :=
  Json.arr ((sortKV m).toArray.map fun e => Json.arr #[Json.str e.1, jstrs e.2])

def jEntries (es : List Entry) : Json :=
  let l := (es.map fun e => (e.file ++ "\x00" ++ e.data, e)).toArray.qsort (fun a b => a.1 < b.1)
  Json.arr (l.map fun e => Json.arr #[Json.str e.2.file, Json.str e.2.data])

def optStrs (o : Option (List String)) : Json := match o with
  | none => Json.null
  | some l => jstrs (l.toArray.qsort (· < ·)).toList

def viewJson (v : View) : Json :=
  Json.mkObj [
    ("members", jstrs v.members),
    ("accounts", jstrs v.idx.accounts.all),
    ("byPrefix", jKL v.idx.accounts.byPrefix),
    ("payees", jstrs v.idx.payees),
    ("commodities", jstrs v.idx.commodities),
    ("tags", jstrs v.idx.tags),
    ("tagValues", jKL v.idx.tagValues),
    ("dates", jstrs v.idx.dates),
    ("ac", jKN v.idx.ac), ("pc", jKN v.idx.pc), ("cc", jKN v.idx.cc), ("tc", jKN v.idx.tc),
    ("tvc", Json.arr ((sortKV v.idx.tvc).toArray.map fun e => Json.arr #[Json.str e.1, jKN e.2])),
    ("tx", Json.arr ((sortKV v.idx.txs).toArray.map fun e => Json.arr #[Json.str e.1, jEntries e.2])),
    ("pt", jKS v.idx.pts),
    ("formats", match v.formats with | none => Json.null | some f => jKS f),
    ("declC", optStrs v.comms),
    ("declA", optStrs v.accts)]

def parseCfg (j : Json) : Cfg :=
  let c := jget j "cfg"
  { fixT := jbool c "fixT", fixG := jbool c "fixG", limit := jnat j "limit" }

def parseFiles (j : Json) (k : String) : List (String × Contrib) :=
  (jarr j k).toList.map fun f => (jstr f "n", parseContrib (jget f "c"))

/-! Parsing the implementation's view -/

def parseKN (j : Json) (k : String) : AList Nat := (jarr j k).toList.map pairKN
def parseKL (j : Json) (k : String) : AList (List String) :=
  (jarr j k).toList.map fun e => match arrOf e with
    | [a, b] => (strOf a, (arrOf b).map strOf)
    | _ => ("", [])
def parseStrs (j : Json) (k : String) : List String := (jarr j k).toList.map strOf
def parseOptStrs (j : Json) (k : String) : Option (List String) :=
  if jhas j k then some (parseStrs j k) else none

def parseView (j : Json) : View :=
  { members := parseStrs j "members"
    idx := {
      ac := parseKN j "ac", pc := parseKN j "pc", cc := parseKN j "cc", tc := parseKN j "tc"
      tvc := (jarr j "tvc").toList.map fun e => match arrOf e with
        | [k, vs] => (strOf k, (arrOf vs).map pairKN)
        | _ => ("", [])
      txs := (jarr j "tx").toList.map fun e => match arrOf e with
        | [k, es] => (strOf k, (arrOf es).map fun x =>
            let fd := pairSS x
            { key := strOf k, file := fd.1, data := fd.2 })
        | _ => ("", [])
      pts := (jarr j "pt").toList.map pairSS
      accounts := { all := parseStrs j "accounts", byPrefix := parseKL j "byPrefix" }
      payees := parseStrs j "payees", commodities := parseStrs j "commodities"
      tags := parseStrs j "tags", tagValues := parseKL j "tagValues", dates := parseStrs j "dates" }
    formats := if jhas j "formats" then some ((jarr j "formats").toList.map pairSS) else none
    comms := parseOptStrs j "declC"
    accts := parseOptStrs j "declA" }

/-! Running the model on a case -/

structure StepOut where
  mid : View
  midOrder : List String
  post : View
  postOrder : List String
  fs : FS
  freshPts : AList String    -- payee templates of the model's own rebuild on `fs`
  quiet : Bool := true       -- no buffer differs from its file after this step

structure Sim where
  root : String
  init : View
  order0 : List String
  steps : List StepOut

/-- `modes`: per update "both" (default: the edit reaches the workspace as didChange, then the
    file is written and didSave repeats it), "change" (didChange only: the buffer now differs
    from the file on disk) or "save" (the file is written with this text and didSave arrives). -/
def simulate (cfg : Cfg) (fs0 : FS) (ups : List (String × Contrib)) (modes : List String := []) : Sim :=
  let w0 := init cfg fs0
  let (v0, w) := observe w0
  let rec go (fs : FS) (w : WS) (dirty : List String) : List ((String × Contrib) × String) → List StepOut
    | [] => []
    | ((n, c), mode) :: rest =>
      if mode == "change" then
        let w1 := updateFile cfg fs w n c
        let (mid, w1') := observe w1
        let dirty' := if dirty.contains n then dirty else n :: dirty
        { mid := mid, midOrder := w1.order, post := mid, postOrder := w1.order, fs := fs,
          freshPts := (init cfg fs).idx.pts, quiet := false } :: go fs w1' dirty' rest
      else if mode == "save" then
        let fs' := fs.set n c
        let w2 := updateFile cfg fs' w n c
        let (post, w2') := observe w2
        let dirty' := dirty.filter (· != n)
        { mid := post, midOrder := w2.order, post := post, postOrder := w2.order, fs := fs',
          freshPts := (init cfg fs').idx.pts, quiet := dirty'.isEmpty } :: go fs' w2' dirty' rest
      else
        let w1 := updateFile cfg fs w n c
        let (mid, w1') := observe w1
        let fs' := fs.set n c
        let w2 := updateFile cfg fs' w1' n c
        let (post, w2') := observe w2
        let dirty' := dirty.filter (· != n)
        { mid := mid, midOrder := w1.order, post := post, postOrder := w2.order, fs := fs',
          freshPts := (init cfg fs').idx.pts, quiet := dirty'.isEmpty } :: go fs' w2' dirty' rest
  { root := w0.root, init := v0, order0 := w0.order,
    steps := go fs0 w [] (ups.zip (modes ++ List.replicate ups.length "both")) }

def outView (v : View) : Json := viewJson v

open HL.Spec.Rebuild in
def run (j : Json) : Json := Id.run do
  let cfg := parseCfg j
  let files := parseFiles j "files"
  let ups := parseFiles j "ups"
  let impl := jget j "impl"
  let implSteps := (jarr impl "steps").toList
  let fs0 : FS := files
  let upσ := ups
  let modes := (jarr j "ups").toList.map fun u => if jhas u "mode" then jstr u "mode" else "both"
  let sim := simulate cfg fs0 upσ modes
  let freshOf := fun (fs : FS) =>
    let wf := init cfg fs
    (outView (observe wf).1).setObjVal! "root" (Json.str wf.root)
  -- the model's output
  let stepsJ := sim.steps.map fun s =>
    Json.mkObj [("mid", outView s.mid), ("midOrder", jstrs s.midOrder),
      ("post", outView s.post), ("postOrder", jstrs s.postOrder),
      ("fresh", freshOf s.fs)]
  let model := Json.mkObj [("root", Json.str sim.root), ("init", outView sim.init),
    ("order0", jstrs sim.order0), ("fresh0", freshOf fs0),
    ("steps", Json.arr stepsJ.toArray)]
  -- domain
  let domain := fsOk fs0 && fs0.length ≥ 2 && fs0.length ≤ 5 && ups.length ≤ 8 &&
    ups.all (fun u => u.1 ≠ "" && contribOk u.2)
  -- the oracle judges the IMPLEMENTATION's views
  let root := jstr impl "root"
  let mut why : List String := []
  let mut known : List String := []
  let mut unexplained := false
  let judgeFresh := fun (fs : FS) (iv : Json) (tag : String) =>
    let r := rebuild cfg.limit fs
    let f := failures r (parseView iv)
    let f := if jstr iv "root" == r.root then f else "root" :: f
    if f.isEmpty then [] else [s!"{tag}: a fresh workspace differs from the specification in {f}"]
  why := why ++ judgeFresh fs0 (jget impl "fresh0") "initial contents"
  let f0 := failures (rebuildAt cfg.limit root fs0) (parseView (jget impl "init"))
  let f0 := if root == rootOf fs0 then f0 else "root" :: f0
  if !f0.isEmpty then why := why ++ [s!"after Initialize: view differs from the specification in {f0}"]
  if !why.isEmpty then unexplained := true
  -- variants of the model with the repairs switched on, to attribute failures
  let simG := if cfg.fixG then sim else simulate { cfg with fixG := true } fs0 upσ modes
  let simGT := simulate { cfg with fixG := true, fixT := true } fs0 upσ modes
  let simT := if cfg.fixT then sim else simulate { cfg with fixT := true } fs0 upσ modes
  let mut i := 0
  for is in implSteps do
    match sim.steps[i]? with
    | none => pure ()
    | some s =>
      let fw := judgeFresh s.fs (jget is "fresh") s!"step {i}"
      if !fw.isEmpty then
        why := why ++ fw
        unexplained := true
      if !s.quiet then
        -- a buffer differs from its file: "the final contents" are not defined until it is saved
        pure ()
      else if rootOf s.fs != root then
        if !known.contains "root-not-reselected" then known := known ++ ["root-not-reselected"]
        why := why ++ [s!"step {i}: a rebuild selects the root {rootOf s.fs}, the workspace keeps {root}"]
      else
        let r := rebuildAt cfg.limit root s.fs
        let F := failures r (parseView (jget is "post"))
        -- payee templates are also compared with the real rebuild, entry by entry
        let addT := fun (F : List String) (pts freshPts : AList String) =>
          if !F.contains "templates" && jKS pts != jKS freshPts then F ++ ["templates"] else F
        let F := addT F (parseView (jget is "post")).idx.pts (parseView (jget is "fresh")).idx.pts
        -- so are the commodity formats (the statement itself: view = view of a fresh workspace)
        let fmtJ := fun (v : View) => match v.formats with | some f => jKS f | none => Json.null
        let F := if !F.contains "formats" &&
            fmtJ (parseView (jget is "post")) != fmtJ (parseView (jget is "fresh")) then F ++ ["formats"] else F
        if !F.isEmpty then
          why := why ++ [s!"step {i}: view differs from a rebuild in {F}"]
          let fOf := fun (sm : Sim) => match sm.steps[i]? with
            | some x => addT (failures r x.post) x.post.idx.pts x.freshPts
            | none => ["?"]
          let mut tags : List String := []
          let mut cur := sim
          if !cfg.fixG && fOf simG != F then
            tags := tags ++ ["stale-include-graph"]
            cur := simG
          if !cfg.fixT then
            let withT := if tags.isEmpty then simT else simGT
            if fOf withT != fOf cur then
              tags := tags ++ ["template-loss"]
              cur := withT
          let residual := fOf cur
          if !residual.isEmpty then
            unexplained := true
          if tags.isEmpty then unexplained := true
          for t in tags do
            if !known.contains t then known := known ++ [t]
    i := i + 1
  let specOk := why.isEmpty
  return Json.mkObj [("model", model), ("spec_ok", specOk), ("in_domain", domain),
    ("known", if unexplained then Json.arr #[] else jstrs known),
    ("why", String.intercalate "; " why)]

/-- Op `c10.ws` (property C10 seen through the workspace): the member files and the file order
    of the workspace's resolved include tree after Initialize and after every update.  The model
    is `simulate` projected to members/orders; the oracle demands of the IMPLEMENTATION that
    after every update the members are exactly the files reachable from the root in the current
    contents (`membersOk` against the rebuild specification).  Steps after which a fresh
    workspace would choose another root are outside this op (finding root-not-reselected of C12). -/
def runMembers (j : Json) : Json := Id.run do
  let cfg := parseCfg j
  let files := parseFiles j "files"
  let ups := parseFiles j "ups"
  let impl := jget j "impl"
  let implSteps := (jarr impl "steps").toList
  let fs0 : FS := files
  let modes := (jarr j "ups").toList.map fun u => if jhas u "mode" then jstr u "mode" else "both"
  let sim := simulate cfg fs0 ups modes
  let stepsJ := sim.steps.map fun s =>
    Json.mkObj [("mid", jstrs s.mid.members), ("midOrder", jstrs s.midOrder),
      ("post", jstrs s.post.members), ("postOrder", jstrs s.postOrder)]
  let model := Json.mkObj [("root", Json.str sim.root), ("init", jstrs sim.init.members),
    ("order0", jstrs sim.order0), ("steps", Json.arr stepsJ.toArray)]
  let domain := HL.Spec.Rebuild.fsOk fs0 && fs0.length ≥ 2 && fs0.length ≤ 5 && ups.length ≤ 8 &&
    ups.all (fun u => u.1 ≠ "" && HL.Spec.Rebuild.contribOk u.2)
  let root := jstr impl "root"
  let memView := fun (ms : List String) => ({ (parseView Json.null) with members := ms } : View)
  let mut why : List String := []
  if root == HL.Spec.Rebuild.rootOf fs0 then
    if !HL.Spec.Rebuild.membersOk (HL.Spec.Rebuild.rebuildAt cfg.limit root fs0) (memView (parseStrs impl "init")) then
      why := why ++ ["after Initialize: the workspace's files are not the files reachable from the root"]
  let mut i := 0
  for is in implSteps do
    match sim.steps[i]? with
    | none => pure ()
    | some s =>
      if s.quiet && HL.Spec.Rebuild.rootOf s.fs == root then
        if !HL.Spec.Rebuild.membersOk (HL.Spec.Rebuild.rebuildAt cfg.limit root s.fs) (memView (parseStrs is "post")) then
          why := why ++ [s!"step {i}: the workspace's files are not the files reachable from the root"]
    i := i + 1
  return Json.mkObj [("model", model), ("spec_ok", why.isEmpty), ("in_domain", domain),
    ("known", Json.arr #[]), ("why", String.intercalate "; " why)]

def contrib (j : Json) : Json :=
  let n := jstr j "n"
  let incs := (jarr j "inc").toList.map strOf
  Json.mkObj [("model", jstrs (resolveIncl n incs)), ("in_domain", true), ("nontrivial", false)]

def handle (op : String) (j : Json) : Option Json :=
  match op with
  | "c12.run" => some (run j)
  | "c12.contrib" => some (contrib j)
  | "c10.ws" => some (runMembers j)
  | _ => none

end HL.Driver.C12
