import HL.Driver.Util
import HL.Driver.AstJson
import HL.Model.Format
import HL.Spec.EditSpec
import HL.Spec.Meaning
open Lean HL HL.Ast HL.Fmt HL.FmtText HL.EditSpec HL.Meaning

namespace HL.Driver.C05

def nfOf (j : Json) : NumberFormat :=
  ⟨jnat j "mark", jhex j "sep", jnat j "places", jbool j "dec"⟩
def nfJ (f : NumberFormat) : Json :=
  Json.mkObj [("mark", f.mark), ("sep", hx f.sep), ("places", f.places), ("dec", f.hasDecimal)]

/-- `null` = Go's nil map; otherwise `[[hexkey, format], …]` with unique keys. -/
def formatsOf (j : Json) : Option Formats := match j with
  | .arr a => some (a.toList.map fun e => match e with
      | .arr p => (unhx p[0]!, nfOf p[1]!)
      | _ => ([], default))
  | _ => none

def optsOf (j : Json) : Fmt.Options := ⟨jint j "indent", jbool j "align", jint j "mincol"⟩

def editJ (e : Edit) : Json :=
  Json.arr #[e.sl.toNat, e.sc.toNat, e.el.toNat, e.ec.toNat, hx e.newText]

def editOf (j : Json) : Edit := match j with
  | .arr a => ⟨UInt32.ofNat (asNat a[0]!), UInt32.ofNat (asNat a[1]!), UInt32.ofNat (asNat a[2]!),
               UInt32.ofNat (asNat a[3]!), unhx a[4]!⟩
  | _ => default

/-- Valid UTF-8 (documents reach the server through JSON): no decoding error, i.e. every
    U+FFFD found is a real three-byte U+FFFD. -/
def validUtf8 (b : Bytes) : Bool := (runes b).all fun (r, sz) => !(r == runeError && sz == 1)

def fmtInDomain (f : NumberFormat) : Bool :=
  (f.mark == 46 || f.mark == 44) && (f.sep == [] || f.sep == [44] || f.sep == [46] || f.sep == [32])

/-- The posting lines of a tree, 0-based. -/
def postingLineNats (t : Journal) : List Nat := (allPostings t).map fun p => p.range.start.line - 1

structure Verdict where
  ok : Bool
  why : String

def isAsciiDigit (b : UInt8) : Bool := 48 ≤ b && b ≤ 57
def isAsciiLetter (b : UInt8) : Bool := (65 ≤ b && b ≤ 90) || (97 ≤ b && b ≤ 122)

def isAsciiAlnum (b : UInt8) : Bool := isAsciiLetter b || isAsciiDigit b

/-- Guard of the known finding `glued-left-commodity`: a rewritten posting whose account is not
    in brackets and ends in a digit, with a bare letter/digit commodity before a quantity that
    is written without a minus sign.  The formatter writes symbol and number without a blank
    (`x1  USD 5`, `x1  USD+5`, `x1  +USD5` all become `x1  USD5`) and the lexer
    (`followsAmountNumber` looks back across the account name to its last digit) then reads
    `USD5` as one commodity symbol. -/
def gluedLeftCommodity (doc : Bytes) (tree : Journal) (formats : Option Formats) (errLines : List Nat) : Bool :=
  let fm : Formats := match formats with | some m => m | none => extractCommodityFormats tree
  (allPostings tree).any fun p =>
    !errLines.contains p.range.start.line && p.virt == .none &&
    (match p.account.name.getLast? with | some b => isAsciiDigit b | none => false) &&
    (match p.amount with
      | some a => a.commodity.side == .left && !a.commodity.symbol.isEmpty &&
          a.commodity.symbol.all isAsciiAlnum && doc[a.commodity.range.start.off]? != some 34 &&
          (match (formatAmountQuantity a (some fm)).head? with | some c => isAsciiDigit c | none => false)
      | none => false)

def isWsOnly (l : Bytes) : Bool := !l.isEmpty && l.all isBlank

/-- Guard of the known finding `trimmed-blank-line-splits-entry`: a line of blanks/tabs only
    that is trimmed (no parse error on it) and is directly followed by a line that starts with
    a blank, a tab or a CR (the lexer's indent characters).  The
    parser lets a whitespace-only line continue a transaction or directive but ends the entry at
    an empty line, so trimming it detaches the indented lines that follow
    (pinned by TestFormatDocument_TrimsEmptyLinesWithSpaces). -/
def blankLineSplitsEntry (doc : Bytes) (errLines : List Nat) : Bool :=
  let ls := splitLines doc
  (List.range ls.length).any fun i =>
    isWsOnly (ls.getD i []) && !errLines.contains (i + 1) &&
      (match (ls.getD (i + 1) []).head? with | some b => isBlankOrCR b | none => false)

/-- What both oracles need first: the edits apply, and harness and driver agree on the result. -/
def applied (j : Json) (doc : Bytes) (implE : List Edit) : Except String Bytes := do
  let some doc2 := applyEdits doc implE | throw "edits cannot be applied (overlap or start > end)"
  if !jhas j "doc2" then throw "harness could not apply the edits"
  if doc2 != jhex j "doc2" then throw "FRAMEWORK: reference appliers of harness and driver disagree"
  return doc2

/-- The oracle of C05 on the implementation's edit list: well-formed edits, idempotence
    (formatting the result again changes nothing), indent and common amount column. -/
def judgeC05 (j : Json) (doc : Bytes) (tree : Journal) (opts : Fmt.Options) (implE : List Edit)
    (lenient : Bool := false) : Verdict := Id.run do
  if !editsWellFormed doc implE then
    return ⟨false, "C05 edits not well-formed (range outside the document, start > end or overlap)"⟩
  let doc2 ← match applied j doc implE with
    | .ok d => pure d
    | .error e => return ⟨false, "C05 " ++ e⟩
  let tree2 := journalOf (jget j "tree2")
  let errs := arrOf perrOf (jget j "errs")
  let errs2 := arrOf perrOf (jget j "errs2")
  let second := arrOf editOf (jget j "second")
  if lenient then return ⟨true, ""⟩
  if applyEdits doc2 second != some doc2 then
    return ⟨false, "C05 not idempotent: formatting the formatted text changes it"⟩
  if opts.alignAmounts then
    let ind := effIndent opts
    let lines2 := splitLines doc2
    let errLines := errs.map (·.pos.line) ++ errs2.map (·.pos.line)
    -- lines rewritten in this round: postings of the original tree without a parse error
    let indentOk := ((allPostings tree).filter fun p => !errLines.contains p.range.start.line).all fun p =>
      let l := lines2.getD (p.range.start.line - 1) []
      l.take ind == spaces ind && (l.drop ind).head? != some 32 && (l.drop ind).head? != some 9
    if !indentOk then return ⟨false, "C05 a posting line does not start with exactly the configured indent"⟩
    -- amount columns as the real parser sees them in the formatted text
    let ps2 := (allPostings tree2).filter fun p => !errLines.contains p.range.start.line
    let cols := ps2.filterMap fun p => match p.status, p.amount with
      | .none, some a => some (a.range.start.col - 1)
      | _, _ => none
    let maxAcc := maxAccountLenTxs tree.transactions
    match cols with
    | [] => pure ()
    | c :: cs =>
      if !cs.all (· == c) then return ⟨false, "C05 amounts do not start in one common column"⟩
      if c < ind + maxAcc + 2 then return ⟨false, "C05 amount column is less than two blanks after the longest account"⟩
  return ⟨true, ""⟩

/-- The oracle of C04.  `lenient` switches off the checks that need the formatted text to be
    read back (used only to see whether a failure is explained by a known finding). -/
def judgeC04 (j : Json) (doc : Bytes) (tree : Journal) (implE : List Edit) (lenient : Bool := false) : Verdict := Id.run do
  let doc2 ← match applied j doc implE with
    | .ok d => pure d
    | .error e => return ⟨false, "C04 " ++ e⟩
  let tree2 := journalOf (jget j "tree2")
  let errs := arrOf perrOf (jget j "errs")
  let errs2 := arrOf perrOf (jget j "errs2")
  if !nonPostingLinesOnlyLoseTrailingBlanks doc doc2 (postingLineNats tree) then
    return ⟨false, "C04 a line that is not a posting changed by more than loss of trailing blanks"⟩
  if !unparsedTextKept doc doc2 (errs.map fun e => (e.pos.line, e.pos.col)) then
    return ⟨false, "C04 text the parser failed to understand was deleted"⟩
  if lenient then return ⟨true, ""⟩
  if !journalEqv tree tree2 then return ⟨false, "C04 meaning changed: " ++ firstDiff tree tree2⟩
  if !errsEqv errs errs2 then return ⟨false, "C04 diagnostics changed"⟩
  return ⟨true, ""⟩

def format (j : Json) : Json :=
  let doc := jhex j "doc"
  let tree := journalOf (jget j "tree")
  let formats := formatsOf (jget j "formats")
  let opts := optsOf (jget j "opts")
  let errs := arrOf perrOf (jget j "errs")
  let edits := formatText tree errs doc formats opts
  let mutKind := jstr j "mut"
  let prop := jstr j "prop"
  let inDomain := mutKind == "" && validUtf8 doc && 1 ≤ opts.indentSize && opts.indentSize ≤ 8 &&
    0 ≤ opts.minCol && opts.minCol ≤ 80 &&
    (match formats with | some m => m.all (fun kv => fmtInDomain kv.2) | none => true)
  let implE := arrOf editOf (jget j "impl")
  let v5 : Verdict := if inDomain && prop != "C04" then judgeC05 j doc tree opts implE else ⟨true, ""⟩
  let v4 : Verdict := if inDomain && prop != "C05" then judgeC04 j doc tree implE else ⟨true, ""⟩
  let errLines := errs.map (·.pos.line)
  -- a failure is attributed to a known finding only if its guard holds and everything that does
  -- not depend on reading the formatted text back still passes
  let lenientOk := (v5.ok || (judgeC05 j doc tree opts implE true).ok) &&
    (v4.ok || (judgeC04 j doc tree implE true).ok)
  let known : Array Json :=
    if !(v5.ok && v4.ok) && lenientOk then
      (if gluedLeftCommodity doc tree formats errLines then #[Json.str "glued-left-commodity"] else #[]) ++
      (if blankLineSplitsEntry doc errLines then #[Json.str "trimmed-blank-line-splits-entry"] else #[])
    else #[]
  let why := if !v5.ok then v5.why else v4.why
  Json.mkObj [("model", arrJ editJ edits), ("in_domain", inDomain), ("spec_ok", v5.ok && v4.ok), ("why", why),
    ("known", Json.arr known), ("nontrivial", inDomain && !(allPostings tree).isEmpty)]

/-- op c05.number: ParseNumberFormat on a format string and FormatNumber of a quantity under
    the parsed format and under an explicit one. -/
def number (j : Json) : Json :=
  let fs := jhex j "fmt"
  let q := decOf (jget j "q")
  let f := parseNumberFormat fs
  let g := nfOf (jget j "nf")
  Json.mkObj [("model", Json.mkObj [("np", hx (extractNumberPart fs)), ("nf", nfJ f),
    ("out", hx (formatNumber q f)), ("out2", hx (formatNumber q g)),
    ("str", hx (decString q true)), ("faithful", formatIsFaithful q f), ("faithful2", formatIsFaithful q g)])]

/-- op c05.nd: the code points for which `unicode.IsDigit` holds, as ranges. -/
def ndRanges : Json :=
  let rs := (ndStarts.map fun lo => (lo, lo + 9)) ++ [(120782, 120831)]
  let rs := rs.toArray.qsort (fun a b => a.1 < b.1)
  Json.mkObj [("model", Json.arr (rs.map fun (a, b) => natArr [a, b]))]

def handle (op : String) (j : Json) : Option Json :=
  match op with
  | "c05.format" => some (format j)
  | "c05.number" => some (number j)
  | "c05.nd" => some ndRanges
  | _ => none

end HL.Driver.C05
