import HL.Driver.Util
import HL.Driver.AstJson
import HL.Model.Format
open Lean HL HL.Ast HL.Fmt HL.FmtText

namespace HL.Driver.C05

def nfOf (j : Json) : NumberFormat :=
  ⟨jnat j "mark", jhex j "sep", jnat j "places", jbool j "dec"⟩
def nfJ (f : NumberFormat) : Json :=
  Json.mkObj [("mark", f.mark), ("sep", hx f.sep), ("places", f.places), ("dec", f.hasDecimal)]

/-- `null` = Go's nil map; otherwise `[[hexkey, format], …]` with unique keys. -/
def formatsOf (j : Json) : Option Formats := match j with
  | .arr a => some (a.toList.map fun e => match e with
      | .arr p => (unhx p[0]!, nfOf p[1]!)
      | _ => ([], default))
  | _ => none

def optsOf (j : Json) : Fmt.Options := ⟨jint j "indent", jbool j "align", jint j "mincol"⟩

def editJ (e : Edit) : Json :=
  Json.arr #[e.sl.toNat, e.sc.toNat, e.el.toNat, e.ec.toNat, hx e.newText]

def format (j : Json) : Json :=
  let doc := jhex j "doc"
  let tree := journalOf (jget j "tree")
  let formats := formatsOf (jget j "formats")
  let opts := optsOf (jget j "opts")
  let edits := formatDocument tree doc formats opts
  Json.mkObj [("model", arrJ editJ edits)]

/-- op c05.number: ParseNumberFormat on a format string and FormatNumber of a quantity under
    the parsed format and under an explicit one. -/
def number (j : Json) : Json :=
  let fs := jhex j "fmt"
  let q := decOf (jget j "q")
  let f := parseNumberFormat fs
  let g := nfOf (jget j "nf")
  Json.mkObj [("model", Json.mkObj [("np", hx (extractNumberPart fs)), ("nf", nfJ f),
    ("out", hx (formatNumber q f)), ("out2", hx (formatNumber q g)),
    ("str", hx (decString q true))])]

/-- op c05.nd: the code points for which `unicode.IsDigit` holds, as ranges. -/
def ndRanges : Json :=
  let rs := (ndStarts.map fun lo => (lo, lo + 9)) ++ [(120782, 120831)]
  let rs := rs.toArray.qsort (fun a b => a.1 < b.1)
  Json.mkObj [("model", Json.arr (rs.map fun (a, b) => natArr [a, b]))]

def handle (op : String) (j : Json) : Option Json :=
  match op with
  | "c05.format" => some (format j)
  | "c05.number" => some (number j)
  | "c05.nd" => some ndRanges
  | _ => none

end HL.Driver.C05
