import HL.Driver.AstJson
import HL.Model.Loader
import HL.Spec.Reach
open Lean HL HL.Loader

/-! Driver ops for C10 and C11: `c10.hist` (one load on a new loader) and `c11.hist`
    (a history of operations on one shared loader).  Same input shape, same model run;
    they differ in the oracle that judges the implementation's output. -/
namespace HL.Driver.C10

def kindName : Kind → String
  | .notFound => "notfound" | .cycle => "cycle" | .depth => "depth" | .parse => "parse"
  | .tooLarge => "toolarge" | .traversal => "traversal" | .globNoMatch => "globnomatch"
  | .globBad => "globbad"

def rawKind : Kind → Bool
  | .traversal | .globNoMatch | .globBad => true
  | _ => false

def errJ (e : Err) : Json :=
  Json.mkObj [("k", kindName e.kind),
    ("p", if rawKind e.kind then Json.str e.raw else toJson e.path),
    ("r", rngJ e.rng),
    ("b", match e.base with | some b => toJson b | none => Json.null)]

def errsJ (es : List Err) : Json := arrJ errJ es

def filesJ (c : Cache) : Json :=
  let l := c.toArray.qsort (fun a b => a.1 < b.1)
  Json.arr (l.map fun (p, f) => natArr [p, f.ver])

def resJ (r : Result) : Json :=
  match r.res with
  | none => Json.mkObj [("nil", true), ("errs", errsJ r.errs)]
  | some x => Json.mkObj [("nil", false), ("primary", x.primary.ver), ("order", natArr x.order),
      ("files", filesJ x.files), ("errs", errsJ r.errs)]

def incOf (j : Json) : Inc :=
  let tgt : Target := match jstr j "t" with
    | "file" => .file (jnat j "p")
    | "trav" => .traversal
    | "glob" => .glob ((jarr j "ms").toList.map asNat)
    | _ => .globBad
  ⟨jstr j "raw", rngOf (jget j "r"), tgt⟩

def fileOf (j : Json) : Option File :=
  match j with
  | .null => none
  | _ => some ⟨jnat j "size", jnat j "ver", (jarr j "incs").toList.map incOf,
      (jarr j "perrs").toList.map posOf⟩

def opOf (j : Json) : Op :=
  match jstr j "k" with
  | "load" => .load (jnat j "root")
  | "content" => .loadContent (jnat j "root") ((fileOf (jget j "file")).getD default)
  | "edit" => .edit (jnat j "p") (fileOf (jget j "file"))
  | "silent" => .editSilently (jnat j "p") (fileOf (jget j "file"))
  | _ => .clear

def modeOf (j : Json) : Mode := ⟨jbool j "stack", jbool j "depth", jbool j "descend"⟩

def fsOf (files : Array (Option File)) : FS := fun p => (files[p]?).join

/-- Run a history through the model; per step the JSON of the result (`null` for steps that
    return nothing). -/
def runModel (lim : Limits) (m : Mode) (fs : FS) (ops : List Op) : List Json :=
  let rec go : World → List Op → List Json
    | _, [] => []
    | w, op :: rest =>
      let (w', r) := stepOp lim m w op
      (match r with | some x => resJ x | none => Json.null) :: go w' rest
  go ⟨fs, []⟩ ops

def same (a b : Json) : Bool := a.compress == b.compress

/-- C10 oracle for one load step: the implementation's file order and errors are those of the
    specification's depth-first traversal, and `Files` holds exactly the files of the order. -/
def ok10 (lim : Limits) (fs : FS) (op : Op) (impl : Json) : Bool :=
  let exp := match op with
    | .load r => some (HL.Reach.expect fs lim r)
    | .loadContent r f => some (HL.Reach.expectContent fs lim r f)
    | _ => none
  match exp with
  | none => true
  | some (none, es) => jbool impl "nil" && same (jget impl "errs") (errsJ es)
  | some (some order, es) =>
    !jbool impl "nil" && same (jget impl "order") (natArr order) && same (jget impl "errs") (errsJ es)
      && (let keys := (jarr impl "files").toList.map fun e => match e with | .arr a => asNat a[0]! | _ => 0
          keys == (order.toArray.qsort (· < ·)).toList)

/-- C11 oracle for one load step: the shared loader's result is the result of a brand-new real
    loader run by the harness on the same files at the same moment.  (That the model's shared
    loader agrees with the model's new loader, `HL.Reach.fresh`, is the theorem
    `HL.Props.C11.load_history_independent`; that the model agrees with the shared real loader
    is the correspondence.) -/
def ok11 (op : Op) (impl realFresh : Json) : Bool :=
  match op with
  | .load _ | .loadContent _ _ => same impl realFresh
  | _ => true

def hist (c11 : Bool) (j : Json) : Json := Id.run do
  let m := modeOf (jget j "mode")
  let lj := jget j "lim"
  let lim : Limits := ⟨jnat lj "size", jnat lj "depth"⟩
  let files := (jarr j "files").map fileOf
  let fs0 := fsOf files
  let ops := (jarr j "ops").toList.map opOf
  let impl := jarr j "impl"
  let realFresh := jarr j "fresh"
  let model := runModel lim m fs0 ops
  let domain := lim.maxDepth ≥ 1 && ops.all fun o => match o with | .editSilently _ _ => false | _ => true
  -- oracle, step by step on the current files
  let mut w : World := ⟨fs0, []⟩
  let mut specOk := true
  let mut why := ""
  let mut i := 0
  for op in ops do
    let im := impl[i]?.getD Json.null
    let ok := if c11 then ok11 op im (realFresh[i]?.getD Json.null) else ok10 lim w.fs op im
    if specOk && !ok then
      specOk := false
      why := if c11 then s!"step {i}: result differs from a fresh loader on the current files"
             else s!"step {i}: file order or errors differ from the depth-first specification"
    w := (stepOp lim m w op).1
    i := i + 1
  -- attribution of a failure to the pinned behaviours still present in the tree
  let mut known : Array Json := #[]
  if domain && !specOk then
    let differs (m' : Mode) : Bool := !same (Json.arr (runModel lim m' fs0 ops).toArray) (Json.arr model.toArray)
    if c11 then
      if !m.descend && differs { m with descend := true } then known := known.push "cache-hit-no-descent"
    else
      if !m.stack && differs { m with stack := true } then known := known.push "diamond-false-cycle"
      if !m.depth && differs { m with depth := true } then known := known.push "depth-counts-files"
      if known.isEmpty && !m.stack && !m.depth && differs { m with stack := true, depth := true } then
        known := #["diamond-false-cycle", "depth-counts-files"]
  return Json.mkObj [("model", Json.arr model.toArray), ("spec_ok", !domain || specOk),
    ("in_domain", domain), ("known", Json.arr known), ("why", why)]

def handle (op : String) (j : Json) : Option Json :=
  match op with
  | "c10.hist" => some (hist false j)
  | "c11.hist" => some (hist true j)
  | _ => none

end HL.Driver.C10
