import HL.Driver.Util
import HL.Driver.AstJson
import HL.Model.Ranges
import HL.Spec.RangeSpec
open Lean HL HL.Ast HL.Text HL.Ranges HL.RangeSpec

/-! Driver op `c08.doc`: one journal, every position-carrying response of the real server.

    model      the model's ranges for every feature (same shape as `impl`)
    spec_ok    every range of `impl` (and of `obs`) passes `rangeOK`; every range reported for an
               account / commodity / payee / date / tag / amount / include path passes `covers`
               for the lexeme named by the tree; fold regions and outline symbols are laminar
    known      the open findings whose guards explain ALL failures of this document
               (if any failure is not explained by a guard the list is empty) -/
namespace HL.Driver.C08

def lr (r : LRange) : Json := natArr [r.sl.toNat, r.sc.toNat, r.el.toNat, r.ec.toNat]
def lrs (l : List LRange) : Json := Json.arr (l.toArray.map lr)
def nr (r : LRange) : NRange := ⟨r.sl.toNat, r.sc.toNat, r.el.toNat, r.ec.toNat⟩

/-- A range of `impl`: four numbers (a fifth marks a location in another document). -/
def nrOf (j : Json) : NRange × Bool := match j with
  | .arr a => (⟨asNat a[0]!, asNat a[1]!, asNat a[2]!, asNat a[3]!⟩, a.size > 4)
  | _ => (⟨0, 0, 0, 0⟩, true)

def txtBytes (t : Txt) : Bytes := (String.ofList t).toUTF8.toList


def isDateChar (c : Char) : Bool := ('0' ≤ c && c ≤ '9') || c == '-' || c == '/' || c == '.'
def isDateText (s : Txt) : Bool :=
  !s.isEmpty && s.all isDateChar && (s.head?.map isDigitC).getD false && (s.getLast?.map isDigitC).getD false

def trimR (s : Txt) : Txt := (s.reverse.dropWhile (· == ' ')).reverse

structure Acc where
  fails : Array (String × String) := #[]   -- (known finding id or "", description)
  checked : Nat := 0

def Acc.fail (a : Acc) (known why : String) : Acc := { a with fails := a.fails.push (known, why) }

def showR (r : NRange) : String := s!"{r.sl}:{r.sc}-{r.el}:{r.ec}"

structure Env where
  doc : Txt
  raw : List Txt           -- lines doc
  jr : Journal
  fx : Fixes

/-- The slice stands between two double quotes: it is the inside of a quoted lexeme, not the
    lexeme (a commodity range must include the quotes, at directive sites as at posting sites). -/
def insideQuotes (e : Env) (r : NRange) : Bool :=
  match e.raw[r.sl]? with
  | some ln =>
    let a := takeU16 ln r.sc
    let b := takeU16 ln r.ec
    a > 0 && ln[a - 1]? == some '"' && ln[b]? == some '"'
  | none => false

/-- Judge one range against the spec.  `h` says what the range is a range of (kind, the lexeme
    named by the tree, the position range the code started from).  `none` = passes;
    `some (id, why)` = fails, `id` the known finding whose guard names this shape ("" if none). -/
def judgeCore (e : Env) (feature : String) (r : NRange) (h : Option Hit) : Option (String × String) := Id.run do
  let kind := (h.map (·.kind)).getD Kind.other
  let name := (h.map (·.name)).getD []
  if !rangeOK e.doc r then
    return some ("", s!"{feature}: range {showR r} is not a well-formed range of the document")
  -- on target?
  let needs := match kind with
    | .transaction | .directive => false
    | .other => feature == "link"
    | _ => true
  if !needs then return none
  let some s := slice e.doc r | return some ("", s!"{feature}: no single-line slice for {showR r}")
  let sb := txtBytes s
  let bad (known : String) (what : String) : Option (String × String) :=
    some (known, s!"{feature}: range {showR r} reported for {what} covers \"{String.ofList s}\"")
  match kind with
  | .account =>
    if sb == name then return none
    -- (a range that covers the name and the blank behind it is not excused: the account token
    -- ends with its name since fix-trailing-blank-ranges.diff)
    return bad (if name.getLast? == some 32 && s.getLast? == some '\t' && txtBytes s.dropLast == name.dropLast
                  then "account-directive-tab" else "") "an account"
  | .commodity =>
    if (sb == name && !insideQuotes e r) || sb == [34] ++ name ++ [34] then return none
    -- (nor a commodity range that runs on over the blanks behind a symbol lexed as text)
    return bad "" "a commodity"
  | .payee =>
    if sb == name then return none
    -- no excuse: the payee's range is read off the header line (fix-payee-range.diff)
    return bad "" "a payee"
  | .tag =>
    if sb == name then return none
    return bad "" "a tag name"
  | .tagValue =>
    if sb == name then return none
    return bad "" "a tag value"
  | .date =>
    if isDateText s then return none
    return bad "" "a date"
  | .amount =>
    -- an amount range starts and ends with a character of the amount (`Amount.Range` ends with
    -- the last token of the amount, not at the token that follows)
    if !s.isEmpty && s.head? != some ' ' && s.getLast? != some ' ' && s.getLast? != some '\t' then return none
    return bad "" "an amount"
  | .other =>
    if feature == "link" then
      if sb == name then return none
      return bad (if !e.fx.link && "include".toList.isPrefixOf s then "link-covers-keyword" else "") "an include path"
    return none
  | _ => return none

/-- Judge one implementation range.  A failure is attributed to a known finding only by the
    specific guard of `judgeCore`; in particular nothing is excused because a rune outside the
    BMP precedes the range (the conversion to UTF-16 units is the code's job since
    fix-utf16-positions.diff). -/
def judge (e : Env) (feature : String) (a : Acc) (r : NRange) (foreign : Bool) (h : Option Hit) : Acc := Id.run do
  let a := { a with checked := a.checked + 1 }
  if foreign then return a.fail "" s!"{feature}: location in another document"
  match judgeCore e feature r h with
  | none => return a
  | some (k, why) => return a.fail k why

def judgeList (e : Env) (feature : String) (a : Acc) (impl : Array Json) (hits : List Hit) : Acc := Id.run do
  let mut a := a
  let aligned := impl.size == hits.length
  let mut i := 0
  for x in impl do
    let (r, f) := nrOf x
    a := judge e feature a r f (if aligned then hits[i]? else none)
    i := i + 1
  return a

def hitOther (r : Rng) : Hit := ⟨.other, [], r, false⟩

def curOf (j : Json) : Cur := ⟨jnat j "l", jnat j "c"⟩

def hk (x : Hit × LRange) : Json := lr x.2
def hks (l : List (Hit × LRange)) : Json := Json.arr (l.toArray.map hk)

def doc (j : Json) : Json := Id.run do
  let text := (jstr j "text").toList
  let g := jbool j "g"
  let jr := journalOf (jget j "tree")
  let perrs := arrOf perrOf (jget j "perrs")
  let diagIn := arrOf rngOf (jget j "diagIn")
  let loadIn := arrOf rngOf (jget j "loadIn")
  let impl := jget j "impl"
  let fxj := jget j "fx"
  let fx : Fixes := ⟨jbool fxj "link", jbool fxj "fold"⟩
  let lns := lines text
  let e : Env := { doc := text, raw := lns, jr := jr, fx := fx }
  -- model
  let mDiag := diagnostics lns perrs diagIn loadIn
  let mSym := documentSymbols lns jr
  let mWs := workspaceSymbols lns jr
  let mLink := documentLinks fx text jr
  let mFold := foldingRanges fx text jr
  let cursors := jarr j "cursors"
  let implCur := jarr impl "cur"
  let mut curOut : Array Json := #[]
  let mut a : Acc := {}
  -- once per document
  let diagHits : List Hit :=
    perrs.map (fun p => hitOther ⟨p.pos, p.pos⟩) ++ diagIn.map hitOther ++ loadIn.map hitOther
  a := judgeList e "diagnostic" a (jarr impl "diag") diagHits
  let symHits := jr.transactions.map (fun tx => (⟨.transaction, [], tx.range, false⟩ : Hit)) ++
    jr.directives.map (fun d => (⟨.directive, [], d.range, false⟩ : Hit)) ++
    jr.includes.map (fun i => (⟨.directive, [], i.range, false⟩ : Hit))
  let implSym := jarr impl "sym"
  let symR : Array Json := implSym.map fun x => match x with
    | .arr v => Json.arr (v.extract 0 4)
    | _ => x
  let symS : Array Json := implSym.map fun x => match x with
    | .arr v => Json.arr (v.extract 4 8)
    | _ => x
  a := judgeList e "documentSymbol" a symR symHits
  a := judgeList e "documentSymbol.selection" a symS symHits
  a := judgeList e "workspaceSymbol" a (jarr impl "wsym") (mWs.map (·.1))
  a := judgeList e "link" a (jarr impl "link") (jr.includes.map fun i => (⟨.other, i.path, i.range, false⟩ : Hit))
  a := judgeList e "formatting" a (jarr (jget j "obs") "fmt") []
  -- laminar families
  let txFolds := transactionFolds fx jr
  let implFold := (jarr impl "fold").toList.map fun x => match x with
    | .arr v => (asNat v[0]!, asNat v[1]!, asNat v[2]!)
    | _ => (0, 0, 0)
  let nl := (docLines text).length
  for f in implFold do
    a := { a with checked := a.checked + 1 }
    if !(f.1 ≤ f.2.1 && f.2.1 < nl) || f.2.2 ≥ 100 then
      a := a.fail "" s!"fold: region {f.1}-{f.2.1} is not a line interval of the document"
  let isTx (s en : Nat) : Bool := txFolds.any fun t => t.s.toNat == s && t.e.toNat == en
  let rec pairs : List (Nat × Nat × Nat) → List ((Nat × Nat × Nat) × (Nat × Nat × Nat))
    | [] => []
    | x :: rest => rest.map (fun y => (x, y)) ++ pairs rest
  for (x, y) in pairs implFold do
    if !foldRel (x.1, x.2.1) (y.1, y.2.1) then
      let isRegion (k : Nat) : Bool := k == 0
      let lineAt (i : Nat) : Txt := e.raw[i]?.getD []
      -- a transaction fold ends on the line on which the next entry starts
      let nextEntry := (isTx x.1 x.2.1 && x.2.1 == y.1) || (isTx y.1 y.2.1 && y.2.1 == x.1)
      -- a comment block starts with indented comment lines inside an entry's region and runs on
      -- into top-level comment lines after it
      let span (c r : Nat × Nat × Nat) : Bool :=
        c.2.2 == 1 && isRegion r.2.2 && r.1 < c.1 && c.1 ≤ r.2.1 && r.2.1 < c.2.1 &&
        isIndentedLine (lineAt c.1) && !isIndentedLine (lineAt c.2.1)
      let cmtSpan := span x y || span y x
      -- an indented posting whose account begins like a directive keyword ("    P x:y  1")
      let likeDir (f : Nat × Nat × Nat) : Bool :=
        isRegion f.2.2 && isIndentedLine (lineAt f.1) && isDirectiveLine (lineAt f.1)
      let dirPosting := likeDir x || likeDir y
      a := a.fail (if fx.fold then "" else if nextEntry then "fold-ends-on-next-entry"
          else if cmtSpan then "comment-fold-spans-entries"
          else if dirPosting then "fold-directive-like-posting" else "")
        s!"fold: regions {x.1}-{x.2.1} and {y.1}-{y.2.1} partially overlap"
  let symN := symR.toList.map fun x => (nrOf x).1
  if !laminarSymbols symN then
    a := a.fail "" "documentSymbol: two outline symbols partially overlap"
  -- every cursor
  let mut i := 0
  for cj in cursors do
    let c := curOf cj
    let ic := implCur[i]?.getD .null
    let mh := hover lns jr c
    let md := definition lns jr c
    let mrf := references lns jr c (jbool cj "decl")
    let mp := prepareRename lns jr c
    let ctx := jnat cj "ctx"
    let mter := textEditRange text c ctx
    let mce := completionEdits text c ctx (jnat cj "nitems")
    let mic := inlineEdits c (jnat cj "ninl")
    let mut o : List (String × Json) := [
      ("h", match mh with
        | some (h, r) => Json.mkObj [("k", h.kind.name), ("r", lr r)]
        | none => .null),
      ("d", hks md), ("rf", hks mrf),
      ("p", match mp with | some x => hk x | none => .null),
      ("ter", match mter with | some r => lr r | none => .null),
      ("ce", lrs mce), ("ic", lrs mic)]
    if jbool cj "ren" then
      let mrn := rename lns jr c
      o := o ++ [("rn", hks mrn)]
      a := judgeList e "rename" a (jarr ic "rn") (mrn.map (·.1))
    curOut := curOut.push (Json.mkObj o)
    -- oracle on the implementation's ranges
    let ih := jget ic "h"
    if !ih.isNull then
      a := judgeList e "hover" a #[jget ih "r"] (match mh with
        | some (h, _) => if h.kind.name == jstr ih "k" then [h] else []
        | none => [])
    a := judgeList e "definition" a (jarr ic "d") (md.map (·.1))
    a := judgeList e "references" a (jarr ic "rf") (mrf.map (·.1))
    if !(jget ic "p").isNull then
      a := judgeList e "prepareRename" a #[jget ic "p"] (mp.toList.map (·.1))
    for x in jarr ic "ce" do
      let (r, _) := nrOf x
      a := { a with checked := a.checked + 1 }
      if !rangeOK text r then
        a := a.fail ""
          s!"completion: edit range {showR r} (cursor {c.line}:{c.char}) is not a well-formed range"
    for x in jarr ic "ic" do
      let (r, _) := nrOf x
      a := { a with checked := a.checked + 1 }
      if !rangeOK text r then
        a := a.fail "" s!"inlineCompletion: edit range {showR r} is not a well-formed range"
    i := i + 1
  let model := Json.mkObj [("diag", lrs mDiag),
    ("sym", Json.arr (mSym.toArray.map fun r => natArr [r.sl.toNat, r.sc.toNat, r.el.toNat, r.ec.toNat, r.sl.toNat, r.sc.toNat, r.el.toNat, r.ec.toNat])),
    ("wsym", hks mWs), ("link", lrs mLink),
    ("fold", Json.arr (mFold.toArray.map fun f => natArr [f.s.toNat, f.e.toNat, if f.comment then 1 else 0])),
    ("cur", Json.arr curOut)]
  let unexplained := a.fails.filter (·.1 == "")
  let knownIds := (a.fails.map (·.1)).toList.eraseDups.filter (· != "")
  let specOk := !g || a.fails.isEmpty
  let why := match unexplained[0]? with
    | some f => f.2
    | none => match a.fails[0]? with
      | some f => s!"[{f.1}] {f.2}"
      | none => ""
  return Json.mkObj [("model", model), ("in_domain", g), ("spec_ok", specOk),
    ("known", Json.arr (if unexplained.isEmpty && g then (knownIds.map Json.str).toArray else #[])),
    ("why", why), ("nontrivial", g && a.checked > 0),
    -- hypothesis of the theorems, evaluated on the real parser's tree (evidence of non-vacuity)
    ("tree_sound", TreePositionsSound one text jr)]

def handle (op : String) (j : Json) : Option Json :=
  match op with
  | "c08.doc" => some (doc j)
  | _ => none

end HL.Driver.C08
