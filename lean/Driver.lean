import HL.Driver.C01
import HL.Driver.Parse
open Lean

/-- Every property's driver module exports `handle : String → Json → Option Json`;
    add one line here per module. -/
def handlers : List (String → Json → Option Json) := [
  HL.Driver.C01.handle,
  HL.Driver.Parse.handle
]

def dispatch (op : String) (j : Json) : Json :=
  match handlers.findSome? (fun h => h op j) with
  | some r => r
  | none => Json.mkObj [("error", s!"unknown op {op}")]

partial def loop (hin hout : IO.FS.Stream) : IO Unit := do
  let line ← hin.getLine
  if line.isEmpty then return ()
  let l := line.trimAscii.toString
  if l.isEmpty then loop hin hout else
  match Json.parse l with
  | .error e => hout.putStrLn (Json.mkObj [("error", s!"parse: {e}")]).compress
  | .ok j =>
    let op := HL.Driver.jstr j "op"
    let r := dispatch op j
    let r := r.setObjVal! "id" (HL.Driver.jget j "id")
    hout.putStrLn r.compress
  loop hin hout

def main : IO Unit := do
  let hin ← IO.getStdin
  let hout ← IO.getStdout
  loop hin hout
  hout.flush
