import HL.Model.Ast
import HL.Model.Text
import HL.Spec.RefBuffer
import HL.Lemmas.Text
import HL.Props.C01
import HL.Driver.AstJson
import HL.Model.Ranges
import HL.Spec.RangeSpec
