import HL.Model.Hover
open HL HL.Hover

theorem ten_ne : (10 : Rat) ≠ 0 := by decide

theorem pow_split (e : Int) (n : Nat) : (10 : Rat) ^ (e + (n : Int)) = (10 : Rat) ^ e * (((10 : Int) ^ n : Int) : Rat) := by
  rw [Rat.zpow_add ten_ne, Rat.zpow_natCast]
  simp [Rat.intCast_pow]

theorem decAdd_exact (a b : Dec) : decToRat (decAdd a b) = decToRat a + decToRat b := by
  unfold decAdd decToRat
  split
  · next h =>
    have hb : b.exp = a.exp + ((b.exp - a.exp).toNat : Int) := by omega
    generalize (b.exp - a.exp).toNat = n at hb
    simp only []
    rw [hb, pow_split]
    simp only [Rat.intCast_add, Rat.intCast_mul]
    grind
  · split
    · next h1 h =>
      have hb : a.exp = b.exp + ((a.exp - b.exp).toNat : Int) := by omega
      generalize (a.exp - b.exp).toNat = n at hb
      simp only []
      rw [hb, pow_split]
      simp only [Rat.intCast_add, Rat.intCast_mul]
      grind
    · next h1 h2 =>
      have : a.exp = b.exp := by omega
      simp only [this, Rat.intCast_add]
      grind
