import HL.Model.Parser
/-
  The loop over the indented lines of a transaction (`bodyF`, repo_patches/fix-txline-tags.diff)
  and the loop that lists the postings only (`postingsF`, what the parser as pinned kept): same
  tokens consumed, same postings; `assemble` on lines without comment lines is the posting list.
-/
namespace HL.Parser
open HL HL.Ast

variable {σ : Type} (E : Env σ)

/-- The loop consumes the tokens `postingsF` consumes. -/
theorem bodyF_snd (n : Nat) (st : PState σ) : (bodyF E n st).2 = (postingsF E n st).2 := by
  induction n generalizing st with
  | zero => rfl
  | succ n ih =>
    unfold bodyF postingsF
    split
    · rfl
    · simp only [ih]

/-- On a comment line `parsePosting` yields no posting. -/
theorem parsePosting_commentLine {st : PState σ} {c : Comment} (hi : st.current.ty = .indent)
    (h : commentLine E st = some c) : (parsePosting E st).1 = none := by
  unfold commentLine at h
  unfold parsePosting
  simp only at h
  split at h
  · rename_i hc
    simp [hi, hc]
  · cases h

def BodyLine.posting? : BodyLine → Option Posting
  | .posting p => some p
  | .comment _ => none

def BodyLine.comment? : BodyLine → Option Comment
  | .posting _ => none
  | .comment c => some c

/-- The postings among the lines are the postings of `postingsF`. -/
theorem bodyF_postings (n : Nat) (st : PState σ) :
    (bodyF E n st).1.filterMap BodyLine.posting? = (postingsF E n st).1 := by
  induction n generalizing st with
  | zero => rfl
  | succ n ih =>
    unfold bodyF postingsF
    split
    · rfl
    · rename_i hi
      have hi' : st.current.ty = .indent := by simpa using hi
      simp only
      rw [← ih]
      unfold bodyLine
      cases hc : commentLine E st with
      | some c =>
        simp only [parsePosting_commentLine E hi' hc, List.filterMap_cons, BodyLine.posting?]
      | none =>
        cases (parsePosting E st).1 with
        | none => simp
        | some p => simp [BodyLine.posting?]

/-- Without comment lines the loop's effect on the transaction is appending the postings. -/
theorem assemble_postings (cs : List Comment) (ps l : List Posting) :
    assemble cs ps (l.map .posting) = (cs, ps ++ l) := by
  induction l generalizing ps with
  | nil => simp [assemble]
  | cons p r ih => simp [assemble, ih]

/-- No line is a comment line: the lines are the postings of `postingsF`. -/
theorem bodyF_no_comment (n : Nat) (st : PState σ)
    (h : ∀ l ∈ (bodyF E n st).1, l.comment? = none) :
    (bodyF E n st).1 = (postingsF E n st).1.map .posting := by
  rw [← bodyF_postings]
  generalize (bodyF E n st).1 = ls at h
  induction ls with
  | nil => rfl
  | cons l r ih =>
    cases l with
    | posting p =>
      simp only [List.filterMap_cons, BodyLine.posting?, List.map_cons]
      rw [← ih (fun x hx => h x (List.mem_cons_of_mem _ hx))]
    | comment c => exact absurd (h _ List.mem_cons_self) (by simp [BodyLine.comment?])

/-- A comment line in front of the first posting becomes a comment of the transaction. -/
theorem attachComment_nil (cs : List Comment) (c : Comment) : attachComment cs [] c = (cs ++ [c], []) := rfl

/-- A comment line after a posting gives its tags to that posting and changes nothing else. -/
theorem attachComment_snoc (cs : List Comment) (ps : List Posting) (p : Posting) (c : Comment) :
    attachComment cs (ps ++ [p]) c = (cs, ps ++ [{ p with tags := p.tags ++ c.tags }]) := by
  simp [attachComment]

/-- The number of postings is that of the posting lines: comment lines add none. -/
theorem assemble_length (cs : List Comment) (ps : List Posting) (ls : List BodyLine) :
    (assemble cs ps ls).2.length = ps.length + (ls.filterMap BodyLine.posting?).length := by
  induction ls generalizing cs ps with
  | nil => simp [assemble]
  | cons l r ih =>
    cases l with
    | posting p => simp [assemble, ih, BodyLine.posting?]; omega
    | comment c =>
      simp only [assemble, ih, List.filterMap_cons, BodyLine.posting?]
      unfold attachComment
      cases hl : ps.getLast? with
      | none => simp
      | some last =>
        have : ps ≠ [] := by intro e; simp [e] at hl
        simp [List.length_dropLast]
        have := List.length_pos_iff.mpr this
        omega

end HL.Parser
